// Contracts for src/capture.rs (C19 owned matched text). Injected as a child module of `capture`.
use super::*;
use crate::verif_prelude::*;

//@ob C19.captures.owned_get
//@ props: C19 C05
//@ kind: bounded(matched text of 4 ASCII bytes; two capture groups with symbolic, possibly absent, byte ranges; index symbolic over all usize)
//@ unwind: 8
//@ fns: src/capture.rs::OwnedText::get
//@ pre: owned matched text with two groups whose ranges lie within the text (start <= end <= len), as From<&Captures> builds them
//@ post: get(0) is the whole matched text; get(i) for 1 <= i <= n is exactly matched[range_(i-1)], or None for a group that did not participate; get(i) = None for i > n; never panics
fn ob_c19_captures_owned_get(index: usize, has1: bool, a1: usize, b1: usize, has2: bool, a2: usize, b2: usize) {
    vassume!(a1 <= b1 && b1 <= 4 && a2 <= b2 && b2 <= 4);
    let text = OwnedText {
        matched: String::from("abcd"),
        ranges: vec![if has1 { Some((a1, b1)) } else { None }, if has2 { Some((a2, b2)) } else { None }],
    };
    vcover!(index == 2 && has2 && a2 == 1 && b2 == 3);
    vcover!(index == 1 && !has1);
    vcover!(index > 2);
    let got = text.get(index);
    let bytes = b"abcd";
    match index {
        0 => assert!(got.map(|s| s.len()) == Some(4), "C19 capture 0 is the whole matched text"),
        1 | 2 => {
            let (has, a, b) = if index == 1 { (has1, a1, b1) } else { (has2, a2, b2) };
            match got {
                None => assert!(!has, "C19 a participating group is returned"),
                Some(s) => {
                    assert!(has, "C19 a non-participating group is None");
                    assert!(s.len() == b - a, "C19 the capture is the recorded byte range");
                    assert!(s.as_ptr() == text.matched.as_ptr().wrapping_add(a), "C19 the capture starts at the recorded offset");
                    assert!(s.is_empty() || s.as_bytes()[0] == bytes[a], "C19 the capture is a substring of the matched text");
                },
            }
        },
        _ => assert!(got.is_none(), "C19 there is no capture beyond the last group"),
    }
}

//@ob C19.capture.canary
//@ props: C19
//@ kind: canary
//@ fns: -
//@ pre: none
//@ post: must FAIL
fn ob_c19_capture_canary(index: usize) {
    assert!(index != 5, "canary");
}
