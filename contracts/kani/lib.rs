// Contracts for src/lib.rs: meta-character predicates and `escape` (C18), character casing (C11).
// Injected as a child module of the crate root (CharExt / StrExt are private traits there).
// The parser's character lists are re-extracted from src/token/parse.rs on every run:
use super::*;
use crate::verif_prelude::*;

//@extract parser_constants

//@ob C18.meta.set
//@ props: C18 C05
//@ kind: complete
//@ fns: src/lib.rs::is_meta_character src/token/parse.rs::literal(character-lists)
//@ pre: any Unicode scalar value c (all 0x110000 - 0x800 of them)
//@ post: is_meta_character(c) <=> the literal parser stops at c and c is neither the separator nor the escape character; and the characters the parser accepts after a backslash are exactly these, each standing for itself -- every character the parser treats as a pattern meta-character is reported as such, can be escaped, and nothing else can
fn ob_c18_meta_set(c: char) {
    let meta = is_meta_character(c);
    vcover!(meta);
    vcover!(c == '/');
    vcover!(c as u32 > 0xffff);
    assert!(meta == (stop_contains(c) && c != '/' && c != CONTROL), "C18 meta-characters are exactly the parser's stop characters (minus separator and backslash)");
    assert!(esc_tag_contains(c) == meta, "C18 exactly the meta-characters can be escaped in a literal");
    assert!(esc_value(c).map_or(true, |v| v == c), "C18 an escaped character stands for itself");
    assert!(CONTROL == '\\' && stop_contains(CONTROL) && stop_contains('/'), "C18 the literal parser stops at the separator and at the escape character");
}

//@ob C18.meta.contextual
//@ props: C18 C05
//@ kind: complete
//@ fns: src/lib.rs::is_contextual_meta_character src/token/parse.rs::class(character-lists)
//@ pre: any Unicode scalar value c
//@ post: is_contextual_meta_character(c) <=> c can be escaped inside a class but is not a meta-character elsewhere; the class parser stops exactly at its escapable characters and the backslash; a class escape stands for itself
fn ob_c18_meta_contextual(c: char) {
    let ctx = is_contextual_meta_character(c);
    vcover!(ctx);
    assert!(ctx == (class_esc_value(c).is_some() && !is_meta_character(c)), "C18 contextual meta-characters are the class-only escapes");
    assert!(class_stop_contains(c) == (class_esc_value(c).is_some() || c == '\\'), "C18 the class parser stops exactly at its escapable characters and the backslash");
    assert!(class_esc_value(c).map_or(true, |v| v == c), "C18 a class escape stands for itself");
}

// `escape` is expensive for CBMC (String growth + chars() decoding): measured on this tree, input on
// a stack buffer: 1 ASCII char 2.6 s; 2 ASCII chars length only 26 s, full content 545 s; a first
// character ranging over all of `char`: out of memory; input built as a `String`: > 600 s.
fn escape_check(buf: &[u8], n: usize, content: bool) {
    // SAFETY: ASCII bytes are valid UTF-8.
    let s = unsafe { core::str::from_utf8_unchecked(&buf[..n]) };
    let escaped = escape(s);
    let got = escaped.as_bytes();
    let mut metas = 0usize;
    let mut i = 0usize;
    let mut j = 0usize;
    while i < n {
        let m = is_meta_character(buf[i] as char);
        if m {
            metas += 1;
        }
        if content {
            if m {
                assert!(got[j] == b'\\', "C18 a meta-character is preceded by a backslash");
                j += 1;
            }
            assert!(got[j] == buf[i], "C18 every character is kept, in order");
            j += 1;
        }
        i += 1;
    }
    assert!(got.len() == n + metas, "C18 escape adds exactly one backslash per meta-character");
    match escaped {
        Cow::Borrowed(b) => {
            assert!(metas == 0, "C18 borrowed only when nothing needs escaping");
            assert!(core::ptr::eq(b, s), "C18 a string without meta-characters is returned unchanged");
        },
        Cow::Owned(_) => assert!(metas != 0, "C18 escaping leaves strings without meta-characters unchanged (no copy)"),
    }
}

//@ob C18.escape.structure.ascii1
//@ props: C18 C05
//@ kind: bounded(strings of exactly one ASCII character)
//@ unwind: 6
//@ fns: src/lib.rs::escape src/lib.rs::is_meta_character
//@ pre: any one-character ASCII string
//@ post: escape(s) is `c`, preceded by a backslash iff is_meta_character(c); without a meta-character the input slice itself is returned (Cow::Borrowed, same pointer)
fn ob_c18_escape_structure_ascii1(b1: u8) {
    vassume!(b1 < 128);
    vcover!(is_meta_character(b1 as char));
    vcover!(b1 == b'/');
    escape_check(&[b1], 1, true);
}

//@ob C18.escape.structure.ascii2.len
//@ props: C18 C05
//@ kind: bounded(ASCII strings of exactly 2 characters; length and borrow clauses only)
//@ unwind: 6
//@ fns: src/lib.rs::escape src/lib.rs::is_meta_character
//@ pre: any two-character ASCII string
//@ post: escape(s) has one extra byte per meta-character; without meta-characters the input slice itself is returned
fn ob_c18_escape_structure_ascii2_len(b1: u8, b2: u8) {
    vassume!(b1 < 128 && b2 < 128);
    vcover!(is_meta_character(b2 as char) && !is_meta_character(b1 as char));
    escape_check(&[b1, b2], 2, false);
}

//@ob C18.escape.structure.ascii2
//@ props: C18 C05
//@ kind: bounded(ASCII strings of exactly 2 characters; full content)
//@ tier: thorough
//@ unwind: 6
//@ fns: src/lib.rs::escape src/lib.rs::is_meta_character
//@ pre: any two-character ASCII string
//@ post: escape(s) is the concatenation over the characters c of s of `c`, preceded by a backslash iff is_meta_character(c); without meta-characters the input slice itself is returned
fn ob_c18_escape_structure_ascii2(b1: u8, b2: u8) {
    vassume!(b1 < 128 && b2 < 128);
    vcover!(is_meta_character(b2 as char) && !is_meta_character(b1 as char));
    escape_check(&[b1, b2], 2, true);
}

fn has_case_mapping(c: char) -> bool {
    let mut lo = c.to_lowercase();
    let mut up = c.to_uppercase();
    !(lo.next() == Some(c) && lo.next().is_none() && up.next() == Some(c) && up.next().is_none())
}

//@ob C11.char.casing
//@ props: C11 C05
//@ kind: complete
//@ tier: thorough
//@ unwind: 14
//@ fns: src/lib.rs::CharExt::has_casing
//@ pre: any Unicode scalar value c
//@ post: if c has a lowercase or uppercase mapping other than itself (so that a case-insensitive literal containing c matches a second, different path) then has_casing(c) -- the predicate that makes such a literal report variant text; ASCII letters have casing, ASCII digits and `/ . - _` do not
fn ob_c11_char_casing(c: char) {
    let has = CharExt::has_casing(c);
    vcover!(has_case_mapping(c) && !c.is_ascii());
    vcover!(!has);
    assert!(!has_case_mapping(c) || has, "C11 a character with a case mapping has casing (title case letters included)");
    if c.is_ascii_alphabetic() {
        assert!(has, "C11 ASCII letters have casing");
    }
    if c.is_ascii_digit() || c == '/' || c == '.' || c == '-' || c == '_' {
        assert!(!has, "C11 digits and path punctuation have no casing");
    }
}

//@ob C18.contract.is_meta_character
//@ props: C18
//@ kind: complete
//@ contract: is_meta_character
//@ fns: src/lib.rs::is_meta_character
//@ pre: none (all of char)
//@ post: [attribute contract] true exactly for the thirteen documented meta-characters ? * $ : < > ( ) [ ] { } ,
fn ob_c18_contract_is_meta_character(c: char) {
    let r = is_meta_character(c);
    vreplay_assert!(r == matches!(c, '?' | '*' | '$' | ':' | '<' | '>' | '(' | ')' | '[' | ']' | '{' | '}' | ','), "C18 contract of is_meta_character");
}

//@ob C18.escape.modular.ascii1
//@ props: C18
//@ kind: bounded(strings of exactly one ASCII character)
//@ unwind: 6
//@ stub_verified: is_meta_character
//@ fns: src/lib.rs::escape
//@ pre: any one-character ASCII string
//@ post: [MODULAR: the calls to is_meta_character are replaced by its verified contract] escape(s) is `c`, preceded by a backslash exactly for the thirteen documented meta-characters; otherwise the input slice itself is returned
fn ob_c18_escape_modular_ascii1(b1: u8) {
    vassume!(b1 < 128);
    let buf = [b1];
    // SAFETY: ASCII bytes are valid UTF-8.
    let s = unsafe { core::str::from_utf8_unchecked(&buf) };
    let documented = matches!(b1 as char, '?' | '*' | '$' | ':' | '<' | '>' | '(' | ')' | '[' | ']' | '{' | '}' | ',');
    vcover!(documented);
    vcover!(!documented);
    let escaped = escape(s);
    let got = escaped.as_bytes();
    if documented {
        assert!(got.len() == 2 && got[0] == b'\\' && got[1] == b1, "C18 a documented meta-character is preceded by a backslash");
        assert!(matches!(escaped, Cow::Owned(_)));
    }
    else {
        assert!(got.len() == 1 && got[0] == b1, "C18 any other character is kept as it is");
        assert!(matches!(escaped, Cow::Borrowed(b) if core::ptr::eq(b, s)), "C18 unchanged strings are returned as they are");
    }
}

//@ob C11.char.casing.titlecase
//@ props: C11 C05
//@ kind: complete
//@ unwind: 14
//@ fns: src/lib.rs::CharExt::has_casing
//@ pre: any Unicode title case letter (general category Lt: U+01C5 U+01C8 U+01CB U+01F2, U+1F88..8F, U+1F98..9F, U+1FA8..AF, U+1FBC U+1FCC U+1FFC -- 31 scalar values, enumerated by case split)
//@ post: has_casing(c): these letters are neither lowercase nor uppercase but fold to both, so a case-insensitive literal made of them matches other paths and must report variant text (the quick-tier slice of C11.char.casing, which ranges over all of char but needs ~400 s)
fn ob_c11_char_casing_titlecase(u: u32) {
    vassume!(matches!(u, 0x1c5 | 0x1c8 | 0x1cb | 0x1f2 | 0x1f88..=0x1f8f | 0x1f98..=0x1f9f | 0x1fa8..=0x1faf | 0x1fbc | 0x1fcc | 0x1ffc));
    vcover!(u == 0x1ffc);
    let c = char::from_u32(u).unwrap();
    assert!(CharExt::has_casing(c), "C11 a title case letter has casing");
}

// A Glob with a placeholder program: `captures()` never reads the compiled regex (verifier-only; the
// placeholder is never read and never dropped).
#[cfg(kani)]
fn mk_glob(tokens: Vec<crate::token::Token<'static, crate::diagnostics::Span>>) -> Glob<'static> {
    use crate::token::verif_kani_token::{mk_concatenation_spanned, mk_tokenized};
    // SAFETY: never read, never dropped (the Glob is forgotten by the caller).
    let program = unsafe { core::mem::MaybeUninit::<Regex>::uninit().assume_init() };
    Glob { tree: crate::rule::verif_kani_rule::mk_checked(mk_tokenized("abcdefghijkl", mk_concatenation_spanned(tokens, (0, 12)))), program }
}
#[cfg(not(kani))]
fn mk_glob(tokens: Vec<crate::token::Token<'static, crate::diagnostics::Span>>) -> Glob<'static> {
    use crate::token::verif_kani_token::{mk_concatenation_spanned, mk_tokenized};
    // native replay: any real program will do, `captures()` does not read it
    let program = Regex::new("").unwrap();
    Glob { tree: crate::rule::verif_kani_rule::mk_checked(mk_tokenized("abcdefghijkl", mk_concatenation_spanned(tokens, (0, 12)))), program }
}

//@ob C17.captures.index-span
//@ props: C17 C05
//@ kind: bounded(globs whose top level is a concatenation of exactly 3 leaf tokens, every leaf kind and every span symbolic)
//@ unwind: 6
//@ fns: src/lib.rs::Glob::captures src/query.rs::CapturingToken::new src/query.rs::CapturingToken::index src/query.rs::CapturingToken::span src/token/mod.rs::Token::is_capturing src/token/mod.rs::LeafKind::is_capturing
//@ pre: a glob whose top-level concatenation has three leaf tokens of any kinds with any annotated spans
//@ post: the REAL Glob::captures yields exactly the capturing tokens (wildcards and classes; never literals or separators), in expression order, numbered 1, 2, ... without gaps (index 0 is the whole match), each with the span stored for ITS token -- so `&expression[start..][..len]` of capture i is the text of the i-th capturing sub-expression
fn ob_c17_captures_index_span(ks: [u8; 3], starts: [usize; 3], lens: [usize; 3]) {
    use crate::token::verif_kani_token::leaf_token_spanned;
    vassume!(ks[0] <= 7 && ks[1] <= 7 && ks[2] <= 7);
    let glob = mk_glob(vec![
        leaf_token_spanned(ks[0], (starts[0], lens[0])),
        leaf_token_spanned(ks[1], (starts[1], lens[1])),
        leaf_token_spanned(ks[2], (starts[2], lens[2])),
    ]);
    vcover!(ks[0] == 0 && ks[1] == 2 && ks[2] == 4);
    vcover!(ks[0] == 6 && ks[1] == 5 && ks[2] == 0);
    let mut it = glob.captures();
    let mut expected = 1usize;
    let mut i = 0;
    while i < 3 {
        if matches!(ks[i], 1 | 2 | 3 | 4 | 6 | 7) {
            match it.next() {
                Some(capture) => {
                    assert!(capture.index() == expected, "C17/C04 captures are numbered from 1 in expression order");
                    assert!(capture.span() == (starts[i], lens[i]), "C17 a capture carries the span of its own sub-expression");
                },
                None => assert!(false, "C17/C04 every capturing token is reported"),
            }
            expected += 1;
        }
        i += 1;
    }
    assert!(it.next().is_none(), "C17/C04 literals and separators do not capture");
    core::mem::forget(it);
    core::mem::forget(glob);
}

//@ob C17.captures.branches
//@ props: C17 C05
//@ kind: bounded(a top-level concatenation literal, BRANCH, `?` where the branch is an alternation of two leaves or a repetition of a leaf; spans symbolic)
//@ unwind: 6
//@ fns: src/lib.rs::Glob::captures src/token/mod.rs::Token::is_capturing src/token/mod.rs::BranchKind::is_capturing
//@ pre: a glob whose top-level concatenation is a literal, then an alternation or a repetition, then a `?`
//@ post: the REAL Glob::captures reports the branch as capture 1 with the span of the WHOLE branch and the `?` as capture 2 -- alternations and repetitions capture as one group, their inner tokens do not add captures
fn ob_c17_captures_branches(starts: [usize; 3], lens: [usize; 3]) {
    use crate::token::verif_kani_token::{leaf_token_spanned, spanned_branch_token};
    captures_branch_case(0, starts, lens);
    captures_branch_case(2, starts, lens);
}
fn captures_branch_case(bk: u8, starts: [usize; 3], lens: [usize; 3]) {
    use crate::token::verif_kani_token::{leaf_token_spanned, spanned_branch_token};
    let glob = mk_glob(vec![
        leaf_token_spanned(0, (starts[0], lens[0])),
        spanned_branch_token(bk, (starts[1], lens[1])),
        leaf_token_spanned(1, (starts[2], lens[2])),
    ]);
    let mut it = glob.captures();
    match it.next() {
        Some(capture) => assert!(capture.index() == 1 && capture.span() == (starts[1], lens[1]), "C17/C04 a top-level alternation / repetition is one capture with the span of the whole branch"),
        None => assert!(false, "C17/C04 alternations and repetitions capture"),
    }
    match it.next() {
        Some(capture) => assert!(capture.index() == 2 && capture.span() == (starts[2], lens[2]), "C17/C04 tokens inside a branch add no captures"),
        None => assert!(false, "C17/C04 the wildcard after the branch is capture 2"),
    }
    assert!(it.next().is_none(), "C17/C04 nothing else captures");
    core::mem::forget(it);
    core::mem::forget(glob);
}

//@ob C18.lib.canary
//@ props: C18 C11
//@ kind: canary
//@ fns: -
//@ pre: none
//@ post: must FAIL
fn ob_c18_lib_canary(c: char) {
    let _ = is_meta_character(c);
    assert!(c != 'q', "canary");
}
