// Contracts for src/rule.rs (C06): the decision tables of the branch rule. `check_branch`,
// `check_alternation`, `check_repetition`, the neighbour predicates and `Outer` are items nested in
// the body of `fn branch`; they are hoisted verbatim on every run (tools/vextract.py `hoist`: the
// text is copied byte-identically from /repo's current source; dropped: the rest of the body of
// `branch` -- the breadth-first driver loop that supplies terminals and neighbours -- which stays
// assumed, see DESIGN). Injected as a child module of `rule`.
//
// Specification (from the property text, per branch, with the branch's TRUE neighbours): a branch is
// rejected exactly when (1) it begins with a component boundary and its left neighbour ends with one,
// or ends with one and its right neighbour begins with one; (2) it consists solely of a tree wildcard;
// (3) it begins / ends with a zero-or-more wildcard and the neighbour on that side ends / begins with
// one; for an alternation branch or an optional repetition with nothing on its left: (4) it begins
// with a separator or a rooted tree wildcard; for a repetition body: (5) it begins AND ends with a
// boundary, or is solely a separator or a zero-or-more wildcard.
use super::*;
use crate::token::verif_kani_token::leaf_token_spanned;
use crate::verif_prelude::*;

//@hoist src/rule.rs | branch | use crate::token::LeafKind::
//@hoist src/rule.rs | branch | use crate::token::Wildcard::
//@hoist src/rule.rs | branch | use Terminals::
//@hoist src/rule.rs | branch | struct CorrelatedError
//@hoist src/rule.rs | branch | impl CorrelatedError
//@hoist src/rule.rs | branch | struct Outer<
//@hoist src/rule.rs | branch | impl<'i, 't, A> Outer<'i, 't, A> {
//@hoist src/rule.rs | branch | impl<'i, 't, A> Clone for Outer
//@hoist src/rule.rs | branch | impl<'i, 't, A> Copy for Outer
//@hoist src/rule.rs | branch | impl<'i, 't, A> Default for Outer
//@hoist src/rule.rs | branch | fn is_some_and_any_in<
//@hoist src/rule.rs | branch | fn is_boundary<
//@hoist src/rule.rs | branch | fn is_zom<
//@hoist src/rule.rs | branch | fn has_starting_boundary<
//@hoist src/rule.rs | branch | fn has_ending_boundary<
//@hoist src/rule.rs | branch | fn has_starting_zom<
//@hoist src/rule.rs | branch | fn has_ending_zom<
//@hoist src/rule.rs | branch | fn check_branch<
//@hoist src/rule.rs | branch | fn check_alternation<
//@hoist src/rule.rs | branch | fn check_repetition<

type Tk = Token<'static, crate::diagnostics::Span>;
// leaf kinds as in the token unit: 0 literal, 1 `?`, 2 `*`, 3 `$`, 4 class, 5 separator, 6 tree
// wildcard, 7 rooted tree wildcard
fn tok(k: u8) -> Tk {
    leaf_token_spanned(k, (0, 1))
}
fn is_b(k: u8) -> bool {
    k >= 5
}
fn is_z(k: u8) -> bool {
    k == 2 || k == 3
}
fn is_rooting(k: u8) -> bool {
    k == 5 || k == 7
}
// error kinds: 0 none, 1 RootedSubGlob, 2 SingularTree, 3 SingularZeroOrMore, 4 AdjacentBoundary,
// 5 AdjacentZeroOrMore, 6 other
fn kind_of(r: &Result<(), CorrelatedError>) -> u8 {
    match r {
        Ok(()) => 0,
        Err(e) => match e.kind {
            RuleErrorKind::RootedSubGlob => 1,
            RuleErrorKind::SingularTree => 2,
            RuleErrorKind::SingularZeroOrMore => 3,
            RuleErrorKind::AdjacentBoundary => 4,
            RuleErrorKind::AdjacentZeroOrMore => 5,
            _ => 6,
        },
    }
}

//@ob C06.branch.no-neighbours
//@ props: C06 C05
//@ kind: complete
//@ unwind: 5
//@ fns: src/rule.rs::branch::check_branch src/rule.rs::Terminals::map src/token/mod.rs::Token::as_leaf
//@ pre: a branch whose terminals are any leaf tokens (one token, or a first and a last token; all eight kinds), with nothing on either side
//@ post: the REAL check_branch (hoisted) rejects it exactly when it consists solely of a tree wildcard, and then as a singular tree; nothing else is rejected without a neighbour
fn ob_c06_branch_no_neighbours(two: bool, ks: u8, ke: u8) {
    vassume!(ks <= 7 && ke <= 7);
    let (ts, te) = (tok(ks), tok(ke));
    let terminals = if two { Terminals::StartEnd(&ts, &te) } else { Terminals::Only(&ts) };
    let outer = Outer { left: None, right: None };
    vcover!(!two && ks == 6);
    vcover!(two && ks == 6 && ke == 5);
    let r = check_branch(terminals, outer);
    let k = kind_of(&r);
    assert!((k != 0) == (!two && ks >= 6), "C06 without neighbours only a branch that is solely a tree wildcard is rejected");
    assert!(k == 0 || k == 2, "C06 ... as a singular tree");
    core::mem::forget(r);
    core::mem::forget((ts, te));
}

//@ob C06.alternation.rooted
//@ props: C06 C12 C05
//@ kind: complete
//@ unwind: 5
//@ fns: src/rule.rs::branch::check_alternation src/rule.rs::Terminals::map
//@ pre: an alternation branch with any leaf terminals; a left neighbour present (any token) or absent
//@ post: the REAL check_alternation rejects the branch (rooted sub-glob) exactly when nothing precedes the alternation and the branch begins with a separator or a rooted tree wildcard -- no alternation branch can root the expression
fn ob_c06_alternation_rooted(two: bool, ks: u8, ke: u8, has_left: bool, has_right: bool) {
    vassume!(ks <= 7 && ke <= 7);
    let (ts, te, tl, tr) = (tok(ks), tok(ke), tok(0), tok(0));
    let terminals = if two { Terminals::StartEnd(&ts, &te) } else { Terminals::Only(&ts) };
    let outer = Outer { left: if has_left { Some(&tl) } else { None }, right: if has_right { Some(&tr) } else { None } };
    vcover!(!has_left && ks == 7 && two);
    vcover!(has_left && ks == 5);
    let r = check_alternation(terminals, outer);
    let k = kind_of(&r);
    assert!((k != 0) == (!has_left && is_rooting(ks)), "C06 an alternation branch that can root the expression is rejected, and only such a branch");
    assert!(k == 0 || k == 1, "C06 ... as a rooted sub-glob");
    core::mem::forget(r);
    core::mem::forget((ts, te, tl, tr));
}

//@ob C06.repetition.table
//@ props: C06 C12 C05
//@ kind: complete
//@ unwind: 5
//@ fns: src/rule.rs::branch::check_repetition src/rule.rs::Terminals::map src/token/variance/natural.rs::NaturalRange::lower src/token/mod.rs::Token::boundary
//@ pre: a repetition body with any leaf terminals; any ordered, non-degenerate bounds (the `bounds` rule runs first); a left neighbour present or absent
//@ post: the REAL check_repetition rejects the body exactly when (a) nothing precedes the repetition, it may occur zero times (lower bound 0, WHATEVER the upper bound) and its body begins with a separator or a rooted tree wildcard -- no optional repetition can root the expression --, or (b) the body begins and ends with a component boundary (repeating it would make them adjacent), or (c) the body is solely a separator or solely a zero-or-more wildcard
fn ob_c06_repetition_table(two: bool, ks: u8, ke: u8, has_left: bool, lower: usize, bounded: bool, upper: usize) {
    vassume!(ks <= 7 && ke <= 7);
    vassume!(!bounded || (lower <= upper && upper != 0));
    let (ts, te, tl) = (tok(ks), tok(ke), tok(0));
    let terminals = if two { Terminals::StartEnd(&ts, &te) } else { Terminals::Only(&ts) };
    let outer = Outer { left: if has_left { Some(&tl) } else { None }, right: None };
    let variance = NaturalRange::from_closed_and_open(lower, if bounded { Some(upper) } else { None });
    vcover!(lower == 0 && bounded && upper == 3 && ks == 5 && !has_left);
    vcover!(two && ks == 5 && ke == 6);
    vcover!(!two && ks == 3);
    let r = check_repetition(terminals, outer, variance);
    let k = kind_of(&r);
    let rooted = !has_left && lower == 0 && is_rooting(ks);
    let closed = two && is_b(ks) && is_b(ke);
    let singular_separator = !two && ks == 5;
    let singular_zom = !two && is_z(ks);
    assert!((k != 0) == (rooted || closed || singular_separator || singular_zom), "C06 a repetition body is rejected exactly for a rooting optional body, a body closed by boundaries on both sides, or a singular separator / zero-or-more wildcard");
    if rooted {
        assert!(k == 1, "C06 an optional repetition that can root the expression is a rooted sub-glob");
    }
    else if k != 0 {
        assert!(k == 4 || (k == 3 && singular_zom), "C06 adjacent boundary / singular zero-or-more");
    }
    core::mem::forget(r);
    core::mem::forget((ts, te, tl));
}

// one neighbour of a CONSTANT leaf kind: the four predicates through the real starting / ending walks
fn neighbour_case(k: u8) {
    let t = tok(k);
    assert!(has_ending_boundary(Some(&t)) == is_b(k), "C06 a leaf neighbour ends with a boundary iff it is a separator or a tree wildcard");
    assert!(has_starting_boundary(Some(&t)) == is_b(k), "C06 a leaf neighbour begins with a boundary iff it is a separator or a tree wildcard");
    assert!(has_ending_zom(Some(&t)) == is_z(k), "C06 a leaf neighbour ends with a zero-or-more wildcard iff it is one");
    assert!(has_starting_zom(Some(&t)) == is_z(k), "C06 a leaf neighbour begins with a zero-or-more wildcard iff it is one");
    core::mem::forget(t);
}

//@ob C06.neighbour.predicates
//@ props: C06 C05
//@ kind: complete
//@ fns: src/rule.rs::branch::has_starting_boundary src/rule.rs::branch::has_ending_boundary src/rule.rs::branch::has_starting_zom src/rule.rs::branch::has_ending_zom src/rule.rs::branch::is_some_and_any_in src/rule.rs::branch::is_boundary src/rule.rs::branch::is_zom src/token/walk.rs::starting src/token/walk.rs::ending
//@ pre: a neighbour that is a leaf token of any of the eight kinds, or no neighbour
//@ post: the REAL neighbour predicates (through the real starting / ending token walks) hold exactly for separators and tree wildcards (boundary) resp. `*` and `$` (zero-or-more); all four are false without a neighbour
fn ob_c06_neighbour_predicates(dummy: bool) {
    vcover!(dummy);
    neighbour_case(0);
    neighbour_case(1);
    neighbour_case(2);
    neighbour_case(3);
    neighbour_case(4);
    neighbour_case(5);
    neighbour_case(6);
    neighbour_case(7);
    let none: Option<&Tk> = None;
    assert!(!has_ending_boundary(none) && !has_starting_boundary(none) && !has_ending_zom(none) && !has_starting_zom(none), "C06 no neighbour, no adjacency");
}

//@ob C06.outer.or
//@ props: C06 C05
//@ kind: complete
//@ fns: src/rule.rs::branch::Outer::or
//@ pre: an inherited context (left / right neighbour of an enclosing branch, each present or absent) and the immediate neighbours of a nested branch (each present or absent)
//@ post: the REAL Outer::or keeps an immediate neighbour where there is one and inherits the enclosing branch's neighbour only where there is none -- on each side independently
fn ob_c06_outer_or(il: bool, ir: bool, nl: bool, nr: bool) {
    let (a, b, c, d) = (tok(0), tok(1), tok(2), tok(5));
    let inherited = Outer { left: if il { Some(&a) } else { None }, right: if ir { Some(&b) } else { None } };
    let merged = inherited.or(if nl { Some(&c) } else { None }, if nr { Some(&d) } else { None });
    vcover!(il && !nl);
    match merged.left {
        Some(t) => assert!(if nl { core::ptr::eq(t, &c) } else { il && core::ptr::eq(t, &a) }, "C06 the immediate left neighbour wins, else the inherited one"),
        None => assert!(!nl && !il, "C06 no left neighbour is lost"),
    }
    match merged.right {
        Some(t) => assert!(if nr { core::ptr::eq(t, &d) } else { ir && core::ptr::eq(t, &b) }, "C06 the immediate right neighbour wins, else the inherited one"),
        None => assert!(!nr && !ir, "C06 no right neighbour is lost"),
    }
    core::mem::forget((a, b, c, d));
}

//@ob C06.rule.canary
//@ props: C06
//@ kind: canary
//@ fns: -
//@ pre: none
//@ post: must FAIL
fn ob_c06_rule_canary(k: u8) {
    let t = tok(1);
    let _ = t.as_leaf().is_some();
    core::mem::forget(t);
    assert!(k != 3, "canary");
}
