// Contracts for src/rule.rs (C06): the decision tables of the branch rule. `check_branch`,
// `check_alternation`, `check_repetition`, the neighbour predicates and `Outer` are items nested in
// the body of `fn branch`; they are hoisted verbatim on every run (tools/vextract.py `hoist`: the
// text is copied byte-identically from /repo's current source; dropped: the rest of the body of
// `branch` -- the breadth-first driver loop that supplies terminals and neighbours -- which stays
// assumed, see DESIGN). Injected as a child module of `rule`.
//
// Specification (from the property text, per branch, with the branch's TRUE neighbours): a branch is
// rejected exactly when (1) it begins with a component boundary and its left neighbour ends with one,
// or ends with one and its right neighbour begins with one; (2) it consists solely of a tree wildcard;
// (3) it begins / ends with a zero-or-more wildcard and the neighbour on that side ends / begins with
// one; for an alternation branch or an optional repetition with nothing on its left: (4) it begins
// with a separator or a rooted tree wildcard; for a repetition body: (5) it begins AND ends with a
// boundary, or is solely a separator or a zero-or-more wildcard.
use super::*;
use crate::token::verif_kani_token::leaf_token_spanned;
use crate::verif_prelude::*;

//@hoist-all src/rule.rs | branch

pub(crate) fn mk_checked<T>(inner: T) -> Checked<T> {
    Checked { inner }
}

type Tk = Token<'static, crate::diagnostics::Span>;
// leaf kinds as in the token unit: 0 literal, 1 `?`, 2 `*`, 3 `$`, 4 class, 5 separator, 6 tree
// wildcard, 7 rooted tree wildcard
fn v_tok(k: u8) -> Tk {
    leaf_token_spanned(k, (0, 1))
}
fn v_is_b(k: u8) -> bool {
    k >= 5
}
fn v_is_z(k: u8) -> bool {
    k == 2 || k == 3
}
fn v_is_rooting(k: u8) -> bool {
    k == 5 || k == 7
}
// error kinds: 0 none, 1 RootedSubGlob, 2 SingularTree, 3 SingularZeroOrMore, 4 AdjacentBoundary,
// 5 AdjacentZeroOrMore, 6 other
fn v_kind_of(r: &Result<(), CorrelatedError>) -> u8 {
    match r {
        Ok(()) => 0,
        Err(e) => match e.kind {
            RuleErrorKind::RootedSubGlob => 1,
            RuleErrorKind::SingularTree => 2,
            RuleErrorKind::SingularZeroOrMore => 3,
            RuleErrorKind::AdjacentBoundary => 4,
            RuleErrorKind::AdjacentZeroOrMore => 5,
            _ => 6,
        },
    }
}

//@ob C06.branch.no-neighbours
//@ props: C06 C05
//@ kind: complete
//@ unwind: 5
//@ fns: src/rule.rs::branch::check_branch src/rule.rs::Terminals::map src/token/mod.rs::Token::as_leaf
//@ pre: a branch whose terminals are any leaf tokens (one token, or a first and a last token; all eight kinds), with nothing on either side
//@ post: the REAL check_branch (hoisted) rejects it exactly when it consists solely of a tree wildcard, and then as a singular tree; nothing else is rejected without a neighbour
fn ob_c06_branch_no_neighbours(two: bool, ks: u8, ke: u8) {
    vassume!(ks <= 7 && ke <= 7);
    let (ts, te) = (v_tok(ks), v_tok(ke));
    let terminals = if two { Terminals::StartEnd(&ts, &te) } else { Terminals::Only(&ts) };
    let outer = Outer { left: None, right: None };
    vcover!(!two && ks == 6);
    vcover!(two && ks == 6 && ke == 5);
    let r = check_branch(terminals, outer);
    let k = v_kind_of(&r);
    assert!((k != 0) == (!two && ks >= 6), "C06 without neighbours only a branch that is solely a tree wildcard is rejected");
    assert!(k == 0 || k == 2, "C06 ... as a singular tree");
    core::mem::forget(r);
    core::mem::forget((ts, te));
}

// one (left neighbour, right neighbour) pair of CONSTANT kinds (8 = no neighbour) against symbolic terminals
fn branch_case(two: bool, ks: u8, ke: u8, kl: u8, kr: u8) {
    let (ts, te) = (v_tok(ks), v_tok(ke));
    let (tl, tr) = (v_tok(if kl < 8 { kl } else { 0 }), v_tok(if kr < 8 { kr } else { 0 }));
    let terminals = if two { Terminals::StartEnd(&ts, &te) } else { Terminals::Only(&ts) };
    let ke = if two { ke } else { ks };
    let (hl, hr) = (kl < 8, kr < 8);
    let outer = Outer { left: if hl { Some(&tl) } else { None }, right: if hr { Some(&tr) } else { None } };
    let r = check_branch(terminals, outer);
    let k = v_kind_of(&r);
    let adjacent_boundary = (v_is_b(ks) && hl && v_is_b(kl)) || (v_is_b(ke) && hr && v_is_b(kr));
    let singular_tree = !two && ks >= 6;
    let adjacent_zom = (v_is_z(ks) && hl && v_is_z(kl)) || (v_is_z(ke) && hr && v_is_z(kr));
    assert!((k != 0) == (adjacent_boundary || singular_tree || adjacent_zom), "C06 a branch is rejected exactly when a boundary or zero-or-more wildcard at its edge meets one at the facing edge of ITS neighbour, or when it is solely a tree wildcard");
    if k != 0 {
        assert!((k == 4 && adjacent_boundary) || (k == 2 && singular_tree) || (k == 5 && adjacent_zom), "C06 the reported rule is one that is violated");
    }
    core::mem::forget(r);
    core::mem::forget((ts, te, tl, tr));
}
fn branch_cases(two: bool, ks: u8, ke: u8, kl: u8) {
    vassume!(ks <= 7 && ke <= 7);
    vcover!(two && ks == 5 && ke == 2);
    branch_case(two, ks, ke, kl, 0);
    branch_case(two, ks, ke, kl, 1);
    branch_case(two, ks, ke, kl, 2);
    branch_case(two, ks, ke, kl, 3);
    branch_case(two, ks, ke, kl, 4);
    branch_case(two, ks, ke, kl, 5);
    branch_case(two, ks, ke, kl, 6);
    branch_case(two, ks, ke, kl, 7);
    branch_case(two, ks, ke, kl, 8);
}

//@ob C06.branch.neighbours.left-none
//@ props: C06 C05
//@ kind: complete
//@ tier: quick
//@ unwind: 5
//@ timeout: 1500
//@ fns: src/rule.rs::branch::check_branch src/rule.rs::branch::has_starting_boundary src/rule.rs::branch::has_ending_boundary src/rule.rs::branch::has_starting_zom src/rule.rs::branch::has_ending_zom src/rule.rs::branch::CorrelatedError::new
//@ pre: a branch whose terminals are any leaf tokens (all eight kinds, one or two terminals); no left neighbour; on the right any leaf token (each of the eight kinds) or nothing -- leaf neighbours only (a neighbour that is itself a branch goes through the starting / ending walks, C12.seq.starting-ending + T3)
//@ post: the REAL check_branch rejects the branch exactly when a component boundary (or zero-or-more wildcard) at its left / right edge faces one at the adjacent edge of the neighbour on that side, or when the branch is solely a tree wildcard; the reported rule is a violated one
fn ob_c06_branch_neighbours_left_none(two: bool, ks: u8, ke: u8) {
    branch_cases(two, ks, ke, 8);
}

//@ob C06.branch.neighbours.left-separator
//@ props: C06 C05
//@ kind: complete
//@ tier: thorough
//@ unwind: 5
//@ timeout: 1500
//@ fns: src/rule.rs::branch::check_branch src/rule.rs::branch::has_starting_boundary src/rule.rs::branch::has_ending_boundary src/rule.rs::branch::has_starting_zom src/rule.rs::branch::has_ending_zom src/rule.rs::branch::CorrelatedError::new
//@ pre: a branch whose terminals are any leaf tokens (all eight kinds, one or two terminals); a separator on the left; on the right any leaf token (each of the eight kinds) or nothing -- leaf neighbours only (a neighbour that is itself a branch goes through the starting / ending walks, C12.seq.starting-ending + T3)
//@ post: the REAL check_branch rejects the branch exactly when a component boundary (or zero-or-more wildcard) at its left / right edge faces one at the adjacent edge of the neighbour on that side, or when the branch is solely a tree wildcard; the reported rule is a violated one
fn ob_c06_branch_neighbours_left_separator(two: bool, ks: u8, ke: u8) {
    branch_cases(two, ks, ke, 5);
}

//@ob C06.branch.neighbours.left-zom
//@ props: C06 C05
//@ kind: complete
//@ tier: thorough
//@ unwind: 5
//@ timeout: 1500
//@ fns: src/rule.rs::branch::check_branch src/rule.rs::branch::has_starting_boundary src/rule.rs::branch::has_ending_boundary src/rule.rs::branch::has_starting_zom src/rule.rs::branch::has_ending_zom src/rule.rs::branch::CorrelatedError::new
//@ pre: a branch whose terminals are any leaf tokens (all eight kinds, one or two terminals); a `*` on the left; on the right any leaf token (each of the eight kinds) or nothing -- leaf neighbours only (a neighbour that is itself a branch goes through the starting / ending walks, C12.seq.starting-ending + T3)
//@ post: the REAL check_branch rejects the branch exactly when a component boundary (or zero-or-more wildcard) at its left / right edge faces one at the adjacent edge of the neighbour on that side, or when the branch is solely a tree wildcard; the reported rule is a violated one
fn ob_c06_branch_neighbours_left_zom(two: bool, ks: u8, ke: u8) {
    branch_cases(two, ks, ke, 2);
}

//@ob C06.branch.neighbours.left-literal
//@ props: C06 C05
//@ kind: complete
//@ tier: thorough
//@ unwind: 5
//@ timeout: 1500
//@ fns: src/rule.rs::branch::check_branch src/rule.rs::branch::has_starting_boundary src/rule.rs::branch::has_ending_boundary src/rule.rs::branch::has_starting_zom src/rule.rs::branch::has_ending_zom src/rule.rs::branch::CorrelatedError::new
//@ pre: a branch whose terminals are any leaf tokens (all eight kinds, one or two terminals); a literal on the left; on the right any leaf token (each of the eight kinds) or nothing -- leaf neighbours only (a neighbour that is itself a branch goes through the starting / ending walks, C12.seq.starting-ending + T3)
//@ post: the REAL check_branch rejects the branch exactly when a component boundary (or zero-or-more wildcard) at its left / right edge faces one at the adjacent edge of the neighbour on that side, or when the branch is solely a tree wildcard; the reported rule is a violated one
fn ob_c06_branch_neighbours_left_literal(two: bool, ks: u8, ke: u8) {
    branch_cases(two, ks, ke, 0);
}

//@ob C06.branch.neighbours.left-one
//@ props: C06 C05
//@ kind: complete
//@ tier: thorough
//@ unwind: 5
//@ timeout: 1500
//@ fns: src/rule.rs::branch::check_branch src/rule.rs::branch::has_starting_boundary src/rule.rs::branch::has_ending_boundary src/rule.rs::branch::has_starting_zom src/rule.rs::branch::has_ending_zom src/rule.rs::branch::CorrelatedError::new
//@ pre: a branch whose terminals are any leaf tokens (all eight kinds, one or two terminals); a `?` on the left; on the right any leaf token (each of the eight kinds) or nothing -- leaf neighbours only (a neighbour that is itself a branch goes through the starting / ending walks, C12.seq.starting-ending + T3)
//@ post: the REAL check_branch rejects the branch exactly when a component boundary (or zero-or-more wildcard) at its left / right edge faces one at the adjacent edge of the neighbour on that side, or when the branch is solely a tree wildcard; the reported rule is a violated one
fn ob_c06_branch_neighbours_left_one(two: bool, ks: u8, ke: u8) {
    branch_cases(two, ks, ke, 1);
}

//@ob C06.branch.neighbours.left-lazy
//@ props: C06 C05
//@ kind: complete
//@ tier: thorough
//@ unwind: 5
//@ timeout: 1500
//@ fns: src/rule.rs::branch::check_branch src/rule.rs::branch::has_starting_boundary src/rule.rs::branch::has_ending_boundary src/rule.rs::branch::has_starting_zom src/rule.rs::branch::has_ending_zom src/rule.rs::branch::CorrelatedError::new
//@ pre: a branch whose terminals are any leaf tokens (all eight kinds, one or two terminals); a `$` on the left; on the right any leaf token (each of the eight kinds) or nothing -- leaf neighbours only (a neighbour that is itself a branch goes through the starting / ending walks, C12.seq.starting-ending + T3)
//@ post: the REAL check_branch rejects the branch exactly when a component boundary (or zero-or-more wildcard) at its left / right edge faces one at the adjacent edge of the neighbour on that side, or when the branch is solely a tree wildcard; the reported rule is a violated one
fn ob_c06_branch_neighbours_left_lazy(two: bool, ks: u8, ke: u8) {
    branch_cases(two, ks, ke, 3);
}

//@ob C06.branch.neighbours.left-class
//@ props: C06 C05
//@ kind: complete
//@ tier: thorough
//@ unwind: 5
//@ timeout: 1500
//@ fns: src/rule.rs::branch::check_branch src/rule.rs::branch::has_starting_boundary src/rule.rs::branch::has_ending_boundary src/rule.rs::branch::has_starting_zom src/rule.rs::branch::has_ending_zom src/rule.rs::branch::CorrelatedError::new
//@ pre: a branch whose terminals are any leaf tokens (all eight kinds, one or two terminals); a class on the left; on the right any leaf token (each of the eight kinds) or nothing -- leaf neighbours only (a neighbour that is itself a branch goes through the starting / ending walks, C12.seq.starting-ending + T3)
//@ post: the REAL check_branch rejects the branch exactly when a component boundary (or zero-or-more wildcard) at its left / right edge faces one at the adjacent edge of the neighbour on that side, or when the branch is solely a tree wildcard; the reported rule is a violated one
fn ob_c06_branch_neighbours_left_class(two: bool, ks: u8, ke: u8) {
    branch_cases(two, ks, ke, 4);
}

//@ob C06.branch.neighbours.left-tree
//@ props: C06 C05
//@ kind: complete
//@ tier: thorough
//@ unwind: 5
//@ timeout: 1500
//@ fns: src/rule.rs::branch::check_branch src/rule.rs::branch::has_starting_boundary src/rule.rs::branch::has_ending_boundary src/rule.rs::branch::has_starting_zom src/rule.rs::branch::has_ending_zom src/rule.rs::branch::CorrelatedError::new
//@ pre: a branch whose terminals are any leaf tokens (all eight kinds, one or two terminals); a tree wildcard on the left; on the right any leaf token (each of the eight kinds) or nothing -- leaf neighbours only (a neighbour that is itself a branch goes through the starting / ending walks, C12.seq.starting-ending + T3)
//@ post: the REAL check_branch rejects the branch exactly when a component boundary (or zero-or-more wildcard) at its left / right edge faces one at the adjacent edge of the neighbour on that side, or when the branch is solely a tree wildcard; the reported rule is a violated one
fn ob_c06_branch_neighbours_left_tree(two: bool, ks: u8, ke: u8) {
    branch_cases(two, ks, ke, 6);
}

//@ob C06.branch.neighbours.left-rooted-tree
//@ props: C06 C05
//@ kind: complete
//@ tier: thorough
//@ unwind: 5
//@ timeout: 1500
//@ fns: src/rule.rs::branch::check_branch src/rule.rs::branch::has_starting_boundary src/rule.rs::branch::has_ending_boundary src/rule.rs::branch::has_starting_zom src/rule.rs::branch::has_ending_zom src/rule.rs::branch::CorrelatedError::new
//@ pre: a branch whose terminals are any leaf tokens (all eight kinds, one or two terminals); a rooted tree wildcard on the left; on the right any leaf token (each of the eight kinds) or nothing -- leaf neighbours only (a neighbour that is itself a branch goes through the starting / ending walks, C12.seq.starting-ending + T3)
//@ post: the REAL check_branch rejects the branch exactly when a component boundary (or zero-or-more wildcard) at its left / right edge faces one at the adjacent edge of the neighbour on that side, or when the branch is solely a tree wildcard; the reported rule is a violated one
fn ob_c06_branch_neighbours_left_rooted_tree(two: bool, ks: u8, ke: u8) {
    branch_cases(two, ks, ke, 7);
}

fn branch_cases3(two: bool, ks: u8, ke: u8, kl: u8) {
    vassume!(ks <= 7 && ke <= 7);
    vcover!(two && ks == 5 && ke == 2);
    branch_case(two, ks, ke, kl, 8);
    branch_case(two, ks, ke, kl, 5);
    branch_case(two, ks, ke, kl, 2);
}

//@ob C06.branch.neighbours.core.left-separator
//@ props: C06 C05
//@ kind: complete
//@ unwind: 5
//@ fns: src/rule.rs::branch::check_branch src/rule.rs::branch::has_starting_boundary src/rule.rs::branch::has_ending_boundary src/rule.rs::branch::has_starting_zom src/rule.rs::branch::has_ending_zom src/rule.rs::branch::CorrelatedError::new
//@ pre: quick-tier slice of C06.branch.neighbours.left-separator: symbolic leaf terminals (all eight kinds, one or two); a separator on the left; on the right nothing, a separator or a `*`
//@ post: as C06.branch.neighbours.left-*: rejected exactly when a boundary / zero-or-more wildcard at an edge faces one at the adjacent edge of the neighbour on that side, or the branch is solely a tree wildcard; the reported rule is a violated one
fn ob_c06_branch_neighbours_core_left_separator(two: bool, ks: u8, ke: u8) {
    branch_cases3(two, ks, ke, 5);
}

//@ob C06.branch.neighbours.core.left-zom
//@ props: C06 C05
//@ kind: complete
//@ unwind: 5
//@ fns: src/rule.rs::branch::check_branch src/rule.rs::branch::has_starting_zom src/rule.rs::branch::has_ending_zom
//@ pre: quick-tier slice of C06.branch.neighbours.left-zom: symbolic leaf terminals; a `*` on the left; on the right nothing, a separator or a `*`
//@ post: as C06.branch.neighbours.left-*
fn ob_c06_branch_neighbours_core_left_zom(two: bool, ks: u8, ke: u8) {
    branch_cases3(two, ks, ke, 2);
}

//@ob C06.alternation.rooted
//@ props: C06 C12 C05
//@ kind: complete
//@ tier: quick
//@ unwind: 6
//@ timeout: 1500
//@ fns: src/rule.rs::branch::check_alternation src/rule.rs::branch::has_starting_root src/rule.rs::branch::is_rooting src/rule.rs::Terminals::map
//@ pre: an alternation branch with leaf terminals: every kind of first terminal (all eight), alone or followed by a literal as last terminal; a left / right neighbour present (any token) or absent. Terminal kinds are constants at each call site (a symbolic last terminal gave no verdict in 15 min once the first terminal is searched with the starting walk)
//@ post: the REAL check_alternation rejects the branch (rooted sub-glob) exactly when nothing precedes the alternation and the branch begins with a separator or a rooted tree wildcard -- no alternation branch can root the expression
fn ob_c06_alternation_rooted(has_left: bool, has_right: bool) {
    vcover!(!has_left);
    vcover!(has_left && has_right);
    alternation_case(true, 0, 0, has_left, has_right);
    alternation_case(true, 1, 0, has_left, has_right);
    alternation_case(true, 2, 0, has_left, has_right);
    alternation_case(true, 3, 0, has_left, has_right);
    alternation_case(true, 4, 0, has_left, has_right);
    alternation_case(true, 5, 0, has_left, has_right);
    alternation_case(true, 6, 0, has_left, has_right);
    alternation_case(true, 7, 0, has_left, has_right);
    alternation_case(false, 0, 0, has_left, has_right);
    alternation_case(false, 1, 0, has_left, has_right);
    alternation_case(false, 2, 0, has_left, has_right);
    alternation_case(false, 3, 0, has_left, has_right);
    alternation_case(false, 4, 0, has_left, has_right);
    alternation_case(false, 5, 0, has_left, has_right);
    alternation_case(false, 6, 0, has_left, has_right);
    alternation_case(false, 7, 0, has_left, has_right);
}
//@ob C06.alternation.rooted.all-ends
//@ props: C06 C12 C05
//@ kind: complete
//@ tier: thorough
//@ unwind: 6
//@ timeout: 1500
//@ fns: src/rule.rs::branch::check_alternation src/rule.rs::branch::has_starting_root src/rule.rs::branch::is_rooting src/rule.rs::Terminals::map
//@ pre: an alternation branch with leaf terminals: every kind of first AND last terminal (8 x 8), and every single terminal; a left / right neighbour present (any token) or absent. Terminal kinds are constants at each call site (a symbolic last terminal gave no verdict in 15 min once the first terminal is searched with the starting walk)
//@ post: the REAL check_alternation rejects the branch (rooted sub-glob) exactly when nothing precedes the alternation and the branch begins with a separator or a rooted tree wildcard -- no alternation branch can root the expression
fn ob_c06_alternation_rooted_all_ends(has_left: bool, has_right: bool) {
    vcover!(!has_left);
    alternation_case(true, 0, 0, has_left, has_right);
    alternation_case(true, 0, 1, has_left, has_right);
    alternation_case(true, 0, 2, has_left, has_right);
    alternation_case(true, 0, 3, has_left, has_right);
    alternation_case(true, 0, 4, has_left, has_right);
    alternation_case(true, 0, 5, has_left, has_right);
    alternation_case(true, 0, 6, has_left, has_right);
    alternation_case(true, 0, 7, has_left, has_right);
    alternation_case(true, 1, 0, has_left, has_right);
    alternation_case(true, 1, 1, has_left, has_right);
    alternation_case(true, 1, 2, has_left, has_right);
    alternation_case(true, 1, 3, has_left, has_right);
    alternation_case(true, 1, 4, has_left, has_right);
    alternation_case(true, 1, 5, has_left, has_right);
    alternation_case(true, 1, 6, has_left, has_right);
    alternation_case(true, 1, 7, has_left, has_right);
    alternation_case(true, 2, 0, has_left, has_right);
    alternation_case(true, 2, 1, has_left, has_right);
    alternation_case(true, 2, 2, has_left, has_right);
    alternation_case(true, 2, 3, has_left, has_right);
    alternation_case(true, 2, 4, has_left, has_right);
    alternation_case(true, 2, 5, has_left, has_right);
    alternation_case(true, 2, 6, has_left, has_right);
    alternation_case(true, 2, 7, has_left, has_right);
    alternation_case(true, 3, 0, has_left, has_right);
    alternation_case(true, 3, 1, has_left, has_right);
    alternation_case(true, 3, 2, has_left, has_right);
    alternation_case(true, 3, 3, has_left, has_right);
    alternation_case(true, 3, 4, has_left, has_right);
    alternation_case(true, 3, 5, has_left, has_right);
    alternation_case(true, 3, 6, has_left, has_right);
    alternation_case(true, 3, 7, has_left, has_right);
    alternation_case(true, 4, 0, has_left, has_right);
    alternation_case(true, 4, 1, has_left, has_right);
    alternation_case(true, 4, 2, has_left, has_right);
    alternation_case(true, 4, 3, has_left, has_right);
    alternation_case(true, 4, 4, has_left, has_right);
    alternation_case(true, 4, 5, has_left, has_right);
    alternation_case(true, 4, 6, has_left, has_right);
    alternation_case(true, 4, 7, has_left, has_right);
    alternation_case(true, 5, 0, has_left, has_right);
    alternation_case(true, 5, 1, has_left, has_right);
    alternation_case(true, 5, 2, has_left, has_right);
    alternation_case(true, 5, 3, has_left, has_right);
    alternation_case(true, 5, 4, has_left, has_right);
    alternation_case(true, 5, 5, has_left, has_right);
    alternation_case(true, 5, 6, has_left, has_right);
    alternation_case(true, 5, 7, has_left, has_right);
    alternation_case(true, 6, 0, has_left, has_right);
    alternation_case(true, 6, 1, has_left, has_right);
    alternation_case(true, 6, 2, has_left, has_right);
    alternation_case(true, 6, 3, has_left, has_right);
    alternation_case(true, 6, 4, has_left, has_right);
    alternation_case(true, 6, 5, has_left, has_right);
    alternation_case(true, 6, 6, has_left, has_right);
    alternation_case(true, 6, 7, has_left, has_right);
    alternation_case(true, 7, 0, has_left, has_right);
    alternation_case(true, 7, 1, has_left, has_right);
    alternation_case(true, 7, 2, has_left, has_right);
    alternation_case(true, 7, 3, has_left, has_right);
    alternation_case(true, 7, 4, has_left, has_right);
    alternation_case(true, 7, 5, has_left, has_right);
    alternation_case(true, 7, 6, has_left, has_right);
    alternation_case(true, 7, 7, has_left, has_right);
    alternation_case(false, 0, 0, has_left, has_right);
    alternation_case(false, 1, 0, has_left, has_right);
    alternation_case(false, 2, 0, has_left, has_right);
    alternation_case(false, 3, 0, has_left, has_right);
    alternation_case(false, 4, 0, has_left, has_right);
    alternation_case(false, 5, 0, has_left, has_right);
    alternation_case(false, 6, 0, has_left, has_right);
    alternation_case(false, 7, 0, has_left, has_right);
}
fn alternation_case(two: bool, ks: u8, ke: u8, has_left: bool, has_right: bool) {
    let (ts, te, tl, tr) = (v_tok(ks), v_tok(ke), v_tok(0), v_tok(0));
    let terminals = if two { Terminals::StartEnd(&ts, &te) } else { Terminals::Only(&ts) };
    let outer = Outer { left: if has_left { Some(&tl) } else { None }, right: if has_right { Some(&tr) } else { None } };
    let r = check_alternation(terminals, outer);
    let k = v_kind_of(&r);
    assert!((k != 0) == (!has_left && v_is_rooting(ks)), "C06 an alternation branch that can root the expression is rejected, and only such a branch");
    assert!(k == 0 || k == 1, "C06 ... as a rooted sub-glob");
    core::mem::forget(r);
    core::mem::forget((ts, te, tl, tr));
}

//@ob C06.repetition.table
//@ props: C06 C12 C05
//@ kind: complete
//@ tier: quick
//@ unwind: 6
//@ timeout: 1500
//@ fns: src/rule.rs::branch::check_repetition src/rule.rs::branch::has_starting_root src/rule.rs::Terminals::map src/token/variance/natural.rs::NaturalRange::lower src/token/mod.rs::Token::boundary
//@ pre: a repetition body with leaf terminals: every kind of first terminal (all eight), alone or with a literal or a separator as last terminal; any ordered, non-degenerate bounds (the `bounds` rule runs first); a left neighbour present or absent. Terminal kinds are constants at each call site
//@ post: the REAL check_repetition rejects the body exactly when (a) nothing precedes the repetition, it may occur zero times (lower bound 0, WHATEVER the upper bound) and its body begins with a separator or a rooted tree wildcard -- no optional repetition can root the expression --, or (b) the body begins and ends with a component boundary (repeating it would make them adjacent), or (c) the body is solely a separator or solely a zero-or-more wildcard
fn ob_c06_repetition_table(has_left: bool, lower: usize, bounded: bool, upper: usize) {
    vassume!(!bounded || (lower <= upper && upper != 0));
    vcover!(lower == 0 && bounded && upper == 3 && !has_left);
    let up = if bounded { Some(upper) } else { None };
    repetition_case(true, 0, 0, has_left, lower, up);
    repetition_case(true, 0, 5, has_left, lower, up);
    repetition_case(true, 1, 0, has_left, lower, up);
    repetition_case(true, 1, 5, has_left, lower, up);
    repetition_case(true, 2, 0, has_left, lower, up);
    repetition_case(true, 2, 5, has_left, lower, up);
    repetition_case(true, 3, 0, has_left, lower, up);
    repetition_case(true, 3, 5, has_left, lower, up);
    repetition_case(true, 4, 0, has_left, lower, up);
    repetition_case(true, 4, 5, has_left, lower, up);
    repetition_case(true, 5, 0, has_left, lower, up);
    repetition_case(true, 5, 5, has_left, lower, up);
    repetition_case(true, 6, 0, has_left, lower, up);
    repetition_case(true, 6, 5, has_left, lower, up);
    repetition_case(true, 7, 0, has_left, lower, up);
    repetition_case(true, 7, 5, has_left, lower, up);
    repetition_case(false, 0, 0, has_left, lower, up);
    repetition_case(false, 1, 0, has_left, lower, up);
    repetition_case(false, 2, 0, has_left, lower, up);
    repetition_case(false, 3, 0, has_left, lower, up);
    repetition_case(false, 4, 0, has_left, lower, up);
    repetition_case(false, 5, 0, has_left, lower, up);
    repetition_case(false, 6, 0, has_left, lower, up);
    repetition_case(false, 7, 0, has_left, lower, up);
}
//@ob C06.repetition.table.all-ends.text
//@ props: C06 C12 C05
//@ kind: complete
//@ tier: thorough
//@ unwind: 6
//@ timeout: 1500
//@ fns: src/rule.rs::branch::check_repetition src/rule.rs::branch::has_starting_root src/rule.rs::Terminals::map src/token/variance/natural.rs::NaturalRange::lower src/token/mod.rs::Token::boundary
//@ pre: a repetition body with leaf terminals: first terminal of kind literal, `?` or class, every kind of last terminal (all eight), and the single-terminal bodies of those kinds; any ordered, non-degenerate bounds; a left neighbour present or absent (the 72 pairs in one harness gave no verdict in 25 min; split by first terminal)
//@ post: as C06.repetition.table
fn ob_c06_repetition_table_all_ends_text(has_left: bool, lower: usize, bounded: bool, upper: usize) {
    vassume!(!bounded || (lower <= upper && upper != 0));
    vcover!(lower == 0 && bounded && upper == 3 && !has_left);
    let up = if bounded { Some(upper) } else { None };
    repetition_case(true, 0, 0, has_left, lower, up);
    repetition_case(true, 0, 1, has_left, lower, up);
    repetition_case(true, 0, 2, has_left, lower, up);
    repetition_case(true, 0, 3, has_left, lower, up);
    repetition_case(true, 0, 4, has_left, lower, up);
    repetition_case(true, 0, 5, has_left, lower, up);
    repetition_case(true, 0, 6, has_left, lower, up);
    repetition_case(true, 0, 7, has_left, lower, up);
    repetition_case(true, 1, 0, has_left, lower, up);
    repetition_case(true, 1, 1, has_left, lower, up);
    repetition_case(true, 1, 2, has_left, lower, up);
    repetition_case(true, 1, 3, has_left, lower, up);
    repetition_case(true, 1, 4, has_left, lower, up);
    repetition_case(true, 1, 5, has_left, lower, up);
    repetition_case(true, 1, 6, has_left, lower, up);
    repetition_case(true, 1, 7, has_left, lower, up);
    repetition_case(true, 4, 0, has_left, lower, up);
    repetition_case(true, 4, 1, has_left, lower, up);
    repetition_case(true, 4, 2, has_left, lower, up);
    repetition_case(true, 4, 3, has_left, lower, up);
    repetition_case(true, 4, 4, has_left, lower, up);
    repetition_case(true, 4, 5, has_left, lower, up);
    repetition_case(true, 4, 6, has_left, lower, up);
    repetition_case(true, 4, 7, has_left, lower, up);
    repetition_case(false, 0, 0, has_left, lower, up);
    repetition_case(false, 1, 0, has_left, lower, up);
    repetition_case(false, 4, 0, has_left, lower, up);
}
//@ob C06.repetition.table.all-ends.zom
//@ props: C06 C12 C05
//@ kind: complete
//@ tier: thorough
//@ unwind: 6
//@ timeout: 1500
//@ fns: src/rule.rs::branch::check_repetition src/rule.rs::branch::has_starting_root src/rule.rs::Terminals::map src/token/variance/natural.rs::NaturalRange::lower src/token/mod.rs::Token::boundary
//@ pre: a repetition body with leaf terminals: first terminal of kind `*` or `$`, every kind of last terminal (all eight), and the single-terminal bodies of those kinds; any ordered, non-degenerate bounds; a left neighbour present or absent (the 72 pairs in one harness gave no verdict in 25 min; split by first terminal)
//@ post: as C06.repetition.table
fn ob_c06_repetition_table_all_ends_zom(has_left: bool, lower: usize, bounded: bool, upper: usize) {
    vassume!(!bounded || (lower <= upper && upper != 0));
    vcover!(lower == 0 && bounded && upper == 3 && !has_left);
    let up = if bounded { Some(upper) } else { None };
    repetition_case(true, 2, 0, has_left, lower, up);
    repetition_case(true, 2, 1, has_left, lower, up);
    repetition_case(true, 2, 2, has_left, lower, up);
    repetition_case(true, 2, 3, has_left, lower, up);
    repetition_case(true, 2, 4, has_left, lower, up);
    repetition_case(true, 2, 5, has_left, lower, up);
    repetition_case(true, 2, 6, has_left, lower, up);
    repetition_case(true, 2, 7, has_left, lower, up);
    repetition_case(true, 3, 0, has_left, lower, up);
    repetition_case(true, 3, 1, has_left, lower, up);
    repetition_case(true, 3, 2, has_left, lower, up);
    repetition_case(true, 3, 3, has_left, lower, up);
    repetition_case(true, 3, 4, has_left, lower, up);
    repetition_case(true, 3, 5, has_left, lower, up);
    repetition_case(true, 3, 6, has_left, lower, up);
    repetition_case(true, 3, 7, has_left, lower, up);
    repetition_case(false, 2, 0, has_left, lower, up);
    repetition_case(false, 3, 0, has_left, lower, up);
}
//@ob C06.repetition.table.all-ends.boundary
//@ props: C06 C12 C05
//@ kind: complete
//@ tier: thorough
//@ unwind: 6
//@ timeout: 1500
//@ fns: src/rule.rs::branch::check_repetition src/rule.rs::branch::has_starting_root src/rule.rs::Terminals::map src/token/variance/natural.rs::NaturalRange::lower src/token/mod.rs::Token::boundary
//@ pre: a repetition body with leaf terminals: first terminal of kind separator, tree wildcard or rooted tree wildcard, every kind of last terminal (all eight), and the single-terminal bodies of those kinds; any ordered, non-degenerate bounds; a left neighbour present or absent (the 72 pairs in one harness gave no verdict in 25 min; split by first terminal)
//@ post: as C06.repetition.table
fn ob_c06_repetition_table_all_ends_boundary(has_left: bool, lower: usize, bounded: bool, upper: usize) {
    vassume!(!bounded || (lower <= upper && upper != 0));
    vcover!(lower == 0 && bounded && upper == 3 && !has_left);
    let up = if bounded { Some(upper) } else { None };
    repetition_case(true, 5, 0, has_left, lower, up);
    repetition_case(true, 5, 1, has_left, lower, up);
    repetition_case(true, 5, 2, has_left, lower, up);
    repetition_case(true, 5, 3, has_left, lower, up);
    repetition_case(true, 5, 4, has_left, lower, up);
    repetition_case(true, 5, 5, has_left, lower, up);
    repetition_case(true, 5, 6, has_left, lower, up);
    repetition_case(true, 5, 7, has_left, lower, up);
    repetition_case(true, 6, 0, has_left, lower, up);
    repetition_case(true, 6, 1, has_left, lower, up);
    repetition_case(true, 6, 2, has_left, lower, up);
    repetition_case(true, 6, 3, has_left, lower, up);
    repetition_case(true, 6, 4, has_left, lower, up);
    repetition_case(true, 6, 5, has_left, lower, up);
    repetition_case(true, 6, 6, has_left, lower, up);
    repetition_case(true, 6, 7, has_left, lower, up);
    repetition_case(true, 7, 0, has_left, lower, up);
    repetition_case(true, 7, 1, has_left, lower, up);
    repetition_case(true, 7, 2, has_left, lower, up);
    repetition_case(true, 7, 3, has_left, lower, up);
    repetition_case(true, 7, 4, has_left, lower, up);
    repetition_case(true, 7, 5, has_left, lower, up);
    repetition_case(true, 7, 6, has_left, lower, up);
    repetition_case(true, 7, 7, has_left, lower, up);
    repetition_case(false, 5, 0, has_left, lower, up);
    repetition_case(false, 6, 0, has_left, lower, up);
    repetition_case(false, 7, 0, has_left, lower, up);
}
fn repetition_case(two: bool, ks: u8, ke: u8, has_left: bool, lower: usize, upper: Option<usize>) {
    let (ts, te, tl) = (v_tok(ks), v_tok(ke), v_tok(0));
    let terminals = if two { Terminals::StartEnd(&ts, &te) } else { Terminals::Only(&ts) };
    let outer = Outer { left: if has_left { Some(&tl) } else { None }, right: None };
    let variance = NaturalRange::from_closed_and_open(lower, upper);
    let r = check_repetition(terminals, outer, variance);
    let k = v_kind_of(&r);
    let rooted = !has_left && lower == 0 && v_is_rooting(ks);
    let closed = two && v_is_b(ks) && v_is_b(ke);
    let singular_separator = !two && ks == 5;
    let singular_zom = !two && v_is_z(ks);
    assert!((k != 0) == (rooted || closed || singular_separator || singular_zom), "C06 a repetition body is rejected exactly for a rooting optional body, a body closed by boundaries on both sides, or a singular separator / zero-or-more wildcard");
    if k != 0 {
        // which violated rule is reported first is not part of the property: any violated one will do
        assert!(
            (k == 1 && rooted) || (k == 4 && (closed || singular_separator)) || (k == 3 && singular_zom),
            "C06 the reported rule is one that is violated"
        );
    }
    core::mem::forget(r);
    core::mem::forget((ts, te, tl));
}

// The starting / ending SEARCH of a neighbour or terminal that is itself a branch is a walk over a token
// tree: measured out of reach (a starting walk over the one-level token `</:1,>`: CBMC out of memory;
// over `</a:1,>`: no verdict in 25 min). For a non-leaf first terminal the search is therefore
// abstracted (-Z stubbing of the hoisted `is_some_and_any_in`) to an ORACLE that answers an arbitrary
// boolean `q`; what is decided is that the tables CONSULT the search and FOLLOW its answer.
#[cfg(kani)]
static mut ANY_IN_ANSWER: bool = false;
#[cfg(kani)]
static mut ANY_IN_CALLS: u32 = 0;
#[cfg(kani)]
fn any_in_oracle<'i, 't, A, R, I, P>(token: Option<&'i Token<'t, A>>, _traversal: R, _predicate: P) -> bool
where
    R: FnOnce(&'i Token<'t, A>) -> I,
    I: Iterator<Item = TokenEntry<'i, 't, A>>,
    P: FnMut(&'i Token<'t, A>) -> bool,
{
    // SAFETY: single-threaded verifier-only state.
    unsafe {
        ANY_IN_CALLS += 1;
        token.is_some() && ANY_IN_ANSWER
    }
}
#[cfg(not(kani))]
fn any_in_oracle<'i, 't, A, R, I, P>(_: Option<&'i Token<'t, A>>, _: R, _: P) -> bool
where
    R: FnOnce(&'i Token<'t, A>) -> I,
    I: Iterator<Item = TokenEntry<'i, 't, A>>,
    P: FnMut(&'i Token<'t, A>) -> bool,
{
    unimplemented!("verifier-only")
}
#[cfg(kani)]
fn arm_any_in(q: bool) {
    // SAFETY: single-threaded verifier-only state.
    unsafe {
        ANY_IN_ANSWER = q;
        ANY_IN_CALLS = 0;
    }
}
#[cfg(not(kani))]
fn arm_any_in(_: bool) {}

//@ob C06.branch.rooted.nested
//@ props: C06 C12 C05
//@ kind: complete
//@ replay: none
//@ unwind: 6
//@ stub: is_some_and_any_in=any_in_oracle
//@ fns: src/rule.rs::branch::check_alternation src/rule.rs::branch::check_repetition src/rule.rs::branch::has_starting_root
//@ pre: an alternation branch, or the body of a repetition (optional or not), whose FIRST terminal is itself a branch (here the token of `</a:1,>`), alone or followed by a text leaf; a left neighbour present or absent; the starting search of that nested branch for a rooting token answers q (arbitrary)
//@ post: the REAL check_alternation rejects the branch as a rooted sub-glob exactly when nothing precedes it and the search finds a rooting token; the REAL check_repetition exactly when, in addition, the repetition may occur zero times: no alternation branch and no optional repetition can root the expression ALSO when the rooting token sits inside a nested branch (`{</a:1,>,b}`, `<</a:1,>:0,1>` built and were sometimes rooted before F5). First version of this obligation (real walk, no oracle) found F5 on the pinned tree in 73 s and gives no verdict on the repaired tree, see DESIGN 11.7
fn ob_c06_branch_rooted_nested(ke: u8, has_left: bool, optional: bool, q: bool) {
    vassume!(ke <= 4);
    vcover!(!has_left && optional && q);
    vcover!(!has_left && !q);
    rooted_nested_case(false, ke, has_left, optional, q);
    rooted_nested_case(true, ke, has_left, optional, q);
}
fn rooted_nested_case(two: bool, ke: u8, has_left: bool, optional: bool, q: bool) {
    let ts = crate::token::verif_kani_token::rooted_repetition_token((1, 8));
    let (te, tl) = (v_tok(ke), v_tok(0));
    let terminals = if two { Terminals::StartEnd(&ts, &te) } else { Terminals::Only(&ts) };
    let outer = Outer { left: if has_left { Some(&tl) } else { None }, right: None };
    arm_any_in(q);
    let r = check_alternation(terminals, outer);
    assert!((v_kind_of(&r) == 1) == (!has_left && q), "C06 an alternation branch that begins with a rooted nested branch roots the expression");
    assert!(v_kind_of(&r) <= 1, "C06 nothing else is wrong with it");
    core::mem::forget(r);
    let variance = if optional { NaturalRange::from_closed_and_open(0, Some(1)) } else { NaturalRange::from_closed_and_open(1, Some(2)) };
    arm_any_in(q);
    let r = check_repetition(terminals, outer, variance);
    assert!((v_kind_of(&r) == 1) == (!has_left && optional && q), "C06 an optional repetition whose body begins with a rooted nested branch roots the expression");
    assert!(v_kind_of(&r) <= 1, "C06 nothing else is wrong with it");
    core::mem::forget(r);
    core::mem::forget((ts, te, tl));
}

// one neighbour of a CONSTANT leaf kind: the four predicates through the real starting / ending walks
fn neighbour_case(k: u8) {
    let t = v_tok(k);
    assert!(has_ending_boundary(Some(&t)) == v_is_b(k), "C06 a leaf neighbour ends with a boundary iff it is a separator or a tree wildcard");
    assert!(has_starting_boundary(Some(&t)) == v_is_b(k), "C06 a leaf neighbour begins with a boundary iff it is a separator or a tree wildcard");
    assert!(has_ending_zom(Some(&t)) == v_is_z(k), "C06 a leaf neighbour ends with a zero-or-more wildcard iff it is one");
    assert!(has_starting_zom(Some(&t)) == v_is_z(k), "C06 a leaf neighbour begins with a zero-or-more wildcard iff it is one");
    core::mem::forget(t);
}

//@ob C06.neighbour.predicates
//@ props: C06 C05
//@ kind: complete
//@ fns: src/rule.rs::branch::has_starting_boundary src/rule.rs::branch::has_ending_boundary src/rule.rs::branch::has_starting_zom src/rule.rs::branch::has_ending_zom src/rule.rs::branch::is_some_and_any_in src/rule.rs::branch::is_boundary src/rule.rs::branch::is_zom src/token/walk.rs::starting src/token/walk.rs::ending
//@ pre: a neighbour that is a leaf token of any of the eight kinds, or no neighbour
//@ post: the REAL neighbour predicates (through the real starting / ending token walks) hold exactly for separators and tree wildcards (boundary) resp. `*` and `$` (zero-or-more); all four are false without a neighbour
fn ob_c06_neighbour_predicates(dummy: bool) {
    vcover!(dummy);
    neighbour_case(0);
    neighbour_case(1);
    neighbour_case(2);
    neighbour_case(3);
    neighbour_case(4);
    neighbour_case(5);
    neighbour_case(6);
    neighbour_case(7);
    let none: Option<&Tk> = None;
    assert!(!has_ending_boundary(none) && !has_starting_boundary(none) && !has_ending_zom(none) && !has_starting_zom(none), "C06 no neighbour, no adjacency");
}

//@ob C06.outer.or
//@ props: C06 C05
//@ kind: complete
//@ fns: src/rule.rs::branch::Outer::or
//@ pre: an inherited context (left / right neighbour of an enclosing branch, each present or absent) and the immediate neighbours of a nested branch (each present or absent)
//@ post: the REAL Outer::or keeps an immediate neighbour where there is one and inherits the enclosing branch's neighbour only where there is none -- on each side independently
fn ob_c06_outer_or(il: bool, ir: bool, nl: bool, nr: bool) {
    let (a, b, c, d) = (v_tok(0), v_tok(1), v_tok(2), v_tok(5));
    let inherited = Outer { left: if il { Some(&a) } else { None }, right: if ir { Some(&b) } else { None } };
    let merged = inherited.or(if nl { Some(&c) } else { None }, if nr { Some(&d) } else { None });
    vcover!(il && !nl);
    match merged.left {
        Some(t) => assert!(if nl { core::ptr::eq(t, &c) } else { il && core::ptr::eq(t, &a) }, "C06 the immediate left neighbour wins, else the inherited one"),
        None => assert!(!nl && !il, "C06 no left neighbour is lost"),
    }
    match merged.right {
        Some(t) => assert!(if nr { core::ptr::eq(t, &d) } else { ir && core::ptr::eq(t, &b) }, "C06 the immediate right neighbour wins, else the inherited one"),
        None => assert!(!nr && !ir, "C06 no right neighbour is lost"),
    }
    core::mem::forget((a, b, c, d));
}

//@ob C06.rule.canary
//@ props: C06
//@ kind: canary
//@ fns: -
//@ pre: none
//@ post: must FAIL
fn ob_c06_rule_canary(k: u8) {
    let t = v_tok(1);
    let _ = t.as_leaf().is_some();
    core::mem::forget(t);
    assert!(k != 3, "canary");
}
