// Shim shared by every injected harness module (crate::verif_prelude).
// Under `cargo kani` the macros map to Kani's primitives; under the native replay build
// (`--cfg verif_replay`, plain rustc) `vassume!` is an early return and `vcover!` is a no-op, so a
// counterexample found by CBMC can be pasted into a call of the same `ob_*` body and must panic
// in the same assertion on the real code.
#![allow(unused_macros, unused_imports, dead_code)]

#[cfg(kani)]
macro_rules! vassume { ($c:expr) => { kani::assume($c) }; }
#[cfg(not(kani))]
macro_rules! vassume { ($c:expr) => { if !($c) { eprintln!("VERIF-REPLAY: precondition not met: {}", stringify!($c)); return; } }; }

#[cfg(kani)]
macro_rules! vcover { ($c:expr) => { kani::cover!($c) }; ($c:expr, $m:expr) => { kani::cover!($c, $m) }; }
#[cfg(not(kani))]
macro_rules! vcover { ($c:expr) => { let _ = $c; }; ($c:expr, $m:expr) => { let _ = $c; }; }

// postcondition of an ATTRIBUTE contract restated for the native replay only (under Kani the injected
// `kani::ensures` is what is checked)
#[cfg(kani)]
macro_rules! vreplay_assert { ($c:expr, $m:expr) => { let _ = || $c; }; }
#[cfg(not(kani))]
macro_rules! vreplay_assert { ($c:expr, $m:expr) => { assert!($c, $m) }; }

pub(crate) use vassume;
pub(crate) use vreplay_assert;
pub(crate) use vcover;

// membership in the set of naturals a (lower, optional upper) pair denotes
pub(crate) fn in_range(x: u128, lo: u128, hi: Option<u128>) -> bool {
    x >= lo && hi.map_or(true, |h| x <= h)
}
