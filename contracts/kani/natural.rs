// Contracts for src/token/variance/natural.rs, ops.rs and the `TokenVariance` operators of
// src/token/variance/mod.rs at T = Depth / Size (C10, C05, C19). Injected as a child module of
// `token::variance::natural` (needs the private `by_bound_with`, `upper_from_lower_extent`).
//
// Specification vocabulary (DESIGN §4): `mem(v, x)` -- the natural `x` belongs to the set the
// variance `v` denotes: Invariant(n) -> {n}; Unbounded -> N; Lower(l) -> [l, inf); Upper(u) -> [0, u];
// Both{l, e} -> [l, l + e]. Contracts are stated with `mem` only, never with expected values.
use super::*;
use crate::token::variance::invariant::{Depth, Invariant as InvariantTrait, Size};
use crate::token::variance::TokenVariance;
use crate::verif_prelude::*;

pub(crate) type TV = TokenVariance<Depth>;
type TS = TokenVariance<Size>;

// operands below 2^62: sums of two stay representable, so a panic in this domain is never the
// (known) overflow `expect`
pub(crate) const BIG: usize = 1usize << 62;

pub(crate) fn nz(n: usize) -> NonZeroUsize {
    NonZeroUsize::new(n).unwrap()
}

// kind: 0 Lower(a), 1 Upper(a), 2 Both{lower: a, extent: b}
pub(crate) fn valid_bvr(kind: u8, a: usize, b: usize) -> bool {
    match kind {
        0 | 1 => a != 0,
        2 => a != 0 && b != 0 && a.checked_add(b).is_some(),
        _ => false,
    }
}
pub(crate) fn mk_bvr(kind: u8, a: usize, b: usize) -> BoundedVariantRange {
    match kind {
        0 => BoundedVariantRange::Lower(nz(a)),
        1 => BoundedVariantRange::Upper(nz(a)),
        _ => BoundedVariantRange::Both { lower: nz(a), extent: nz(b) },
    }
}
// kind: 0 Invariant(a), 1 Unbounded, 2.. = bounded kinds shifted by 2
pub(crate) fn valid_tv(kind: u8, a: usize, b: usize) -> bool {
    match kind {
        0 | 1 => true,
        k => valid_bvr(k - 2, a, b),
    }
}
pub(crate) fn mk_tv<T>(kind: u8, a: usize, b: usize) -> TokenVariance<T>
where
    T: InvariantTrait<Bound = BoundedVariantRange> + From<usize>,
{
    match kind {
        0 => Variance::Invariant(T::from(a)),
        1 => Variance::Variant(Unbounded),
        k => Variance::Variant(Bounded(mk_bvr(k - 2, a, b))),
    }
}
pub(crate) fn mem_bvr(r: &BoundedVariantRange, x: u128) -> bool {
    match r {
        BoundedVariantRange::Lower(l) => x >= l.get() as u128,
        BoundedVariantRange::Upper(u) => x <= u.get() as u128,
        BoundedVariantRange::Both { lower, extent } => {
            x >= lower.get() as u128 && x <= lower.get() as u128 + extent.get() as u128
        },
    }
}
pub(crate) fn mem_vr(r: &VariantRange, x: u128) -> bool {
    match r {
        Unbounded => true,
        Bounded(r) => mem_bvr(r, x),
    }
}
pub(crate) fn mem<T>(v: &TokenVariance<T>, x: u128) -> bool
where
    T: InvariantTrait<Bound = BoundedVariantRange> + Copy + Into<usize>,
{
    match v {
        Variance::Invariant(n) => (*n).into() as u128 == x,
        Variance::Variant(r) => mem_vr(r, x),
    }
}
pub(crate) fn mem_nr(r: &NaturalRange, x: u128) -> bool {
    match r {
        Variance::Invariant(n) => *n as u128 == x,
        Variance::Variant(r) => mem_vr(r, x),
    }
}
// largest finite bound mentioned by the operand (0 for Unbounded)
fn magnitude(kind: u8, a: usize, b: usize) -> u128 {
    match kind {
        1 => 0,
        4 => a as u128 + b as u128,
        _ => a as u128,
    }
}
fn is_upper_kind(k: u8) -> bool {
    k == 3
}
fn is_lower_kind(k: u8) -> bool {
    k == 2
}

// ---------------------------------------------------------------------------------------------
// C10: interval soundness of the three operators, full domain below 2^62
// ---------------------------------------------------------------------------------------------

//@ob C10.var.conjunction
//@ props: C10
//@ kind: complete
//@ fns: src/token/variance/mod.rs::TokenVariance::conjunction src/token/variance/natural.rs::BoundedVariantRange::conjunction src/token/variance/natural.rs::NaturalRange::by_bound_with src/token/variance/natural.rs::NaturalBound::conjunction src/token/variance/natural.rs::BoundedVariantRange::translation src/token/variance/natural.rs::BoundedVariantRange::opened_upper_bound src/token/variance/natural.rs::Depth::into_lower_bound src/token/variance/natural.rs::NaturalRange::from_closed_and_open
//@ pre: a, b well-formed depth variances with bounds <= 2^62; x in gamma(a), y in gamma(b)
//@ post: x + y in gamma(a /\ b) -- concatenation adds depths; no panic
fn ob_c10_var_conjunction(ka: u8, a1: usize, a2: usize, kb: u8, b1: usize, b2: usize, x: usize, y: usize) {
    vassume!(ka <= 4 && kb <= 4 && valid_tv(ka, a1, a2) && valid_tv(kb, b1, b2));
    vassume!(magnitude(ka, a1, a2) <= BIG as u128 && magnitude(kb, b1, b2) <= BIG as u128);
    vassume!(x <= BIG && y <= BIG);
    let a: TV = mk_tv(ka, a1, a2);
    let b: TV = mk_tv(kb, b1, b2);
    vassume!(mem(&a, x as u128) && mem(&b, y as u128));
    vcover!(is_upper_kind(ka) && is_lower_kind(kb));
    vcover!(ka == 4 && kb == 4);
    vcover!(ka == 0 && kb == 1);
    let r = ops::conjunction(a, b);
    assert!(mem(&r, x as u128 + y as u128), "C10 depth of a concatenation is the sum of the depths");
}

//@ob C10.var.disjunction
//@ props: C10
//@ kind: complete
//@ fns: src/token/variance/mod.rs::TokenVariance::disjunction src/token/variance/natural.rs::BoundedVariantRange::union src/token/variance/natural.rs::NaturalRange::by_lower_and_upper_with src/token/variance/natural.rs::Depth::bound src/token/variance/natural.rs::BoundedVariantRange::try_from_lower_and_upper
//@ pre: a, b well-formed depth variances; x in gamma(a) or x in gamma(b)
//@ post: x in gamma(a \/ b) -- alternation unions depths; no panic
fn ob_c10_var_disjunction(ka: u8, a1: usize, a2: usize, kb: u8, b1: usize, b2: usize, x: usize) {
    vassume!(ka <= 4 && kb <= 4 && valid_tv(ka, a1, a2) && valid_tv(kb, b1, b2));
    let a: TV = mk_tv(ka, a1, a2);
    let b: TV = mk_tv(kb, b1, b2);
    vassume!(mem(&a, x as u128) || mem(&b, x as u128));
    vcover!(ka == 0 && kb == 0 && a1 != b1);
    vcover!(ka == 3 && kb == 2);
    vcover!(ka == 4 && kb == 4);
    let r = ops::disjunction(a, b);
    assert!(mem(&r, x as u128), "C10 depth of an alternation contains the depths of its branches");
}

// multiplication by an enumerated constant, so that CBMC never sees a symbolic multiplier
fn mul_small(n: u8, x: u128) -> u128 {
    match n {
        0 => 0,
        1 => x,
        2 => x + x,
        3 => x + x + x,
        _ => x + x + x + x,
    }
}
// repetition range from enumerated bounds; hi == 4 means open
fn rep_range(lo: u8, hi: u8) -> NaturalRange {
    match (lo, hi) {
        (0, 1) => NaturalRange::from_closed_and_open(0, Some(1)),
        (0, 2) => NaturalRange::from_closed_and_open(0, Some(2)),
        (0, 3) => NaturalRange::from_closed_and_open(0, Some(3)),
        (0, _) => NaturalRange::from_closed_and_open(0, None),
        (1, 1) => NaturalRange::from_closed_and_open(1, Some(1)),
        (1, 2) => NaturalRange::from_closed_and_open(1, Some(2)),
        (1, 3) => NaturalRange::from_closed_and_open(1, Some(3)),
        (1, _) => NaturalRange::from_closed_and_open(1, None),
        (2, 2) => NaturalRange::from_closed_and_open(2, Some(2)),
        (2, 3) => NaturalRange::from_closed_and_open(2, Some(3)),
        (2, _) => NaturalRange::from_closed_and_open(2, None),
        (3, 3) => NaturalRange::from_closed_and_open(3, Some(3)),
        _ => NaturalRange::from_closed_and_open(3, None),
    }
}
fn valid_rep(lo: u8, hi: u8) -> bool {
    lo <= 3 && hi <= 4 && hi >= 1 && (hi == 4 || lo <= hi)
}
const M40: usize = 1usize << 40;

fn product_small(lo: u8, hi: u8, n: u8, ka: u8, a1: usize, a2: usize, x: usize, y: usize, s: usize) {
    vassume!(valid_rep(lo, hi) && n <= 4);
    vassume!(ka <= 4 && valid_tv(ka, a1, a2) && magnitude(ka, a1, a2) <= M40 as u128);
    let a: TV = mk_tv(ka, a1, a2);
    let r = rep_range(lo, hi);
    vassume!(mem_nr(&r, n as u128));
    vassume!(x <= y && y <= M40 && mem(&a, x as u128) && mem(&a, y as u128));
    vassume!(mul_small(n, x as u128) <= s as u128 && s as u128 <= mul_small(n, y as u128));
    vcover!(n == 3 && ka == 4);
    vcover!(n == lo);
    let p = ops::product(a, r);
    assert!(mem(&p, s as u128), "C10 depth of a repetition: n bodies of depth in [x,y] give a depth in gamma(a x r)");
}

//@ob C10.var.product.small.lo0
//@ props: C10
//@ kind: bounded(repetition bounds enumerated: lower = 0, upper <= 3 or open, n <= 4 repetitions; the body's own bounds symbolic up to 2^40)
//@ fns: src/token/variance/mod.rs::TokenVariance::product src/token/variance/natural.rs::BoundedVariantRange::product src/token/variance/natural.rs::NaturalBound::product src/token/variance/natural.rs::Depth::product
//@ pre: n in gamma(r); x <= y both in gamma(a); n*x <= s <= n*y
//@ post: s in gamma(a x r) -- repetition multiplies depths
fn ob_c10_var_product_small_lo0(hi: u8, n: u8, ka: u8, a1: usize, a2: usize, x: usize, y: usize, s: usize) {
    product_small(0, hi, n, ka, a1, a2, x, y, s)
}
//@ob C10.var.product.small.lo1
//@ props: C10
//@ kind: bounded(repetition bounds enumerated: lower = 1, upper <= 3 or open, n <= 4 repetitions; the body's own bounds symbolic up to 2^40)
//@ fns: src/token/variance/mod.rs::TokenVariance::product
//@ pre: n in gamma(r); x <= y both in gamma(a); n*x <= s <= n*y
//@ post: s in gamma(a x r)
fn ob_c10_var_product_small_lo1(hi: u8, n: u8, ka: u8, a1: usize, a2: usize, x: usize, y: usize, s: usize) {
    product_small(1, hi, n, ka, a1, a2, x, y, s)
}
//@ob C10.var.product.small.lo2
//@ props: C10
//@ kind: bounded(repetition bounds enumerated: lower = 2, upper <= 3 or open, n <= 4 repetitions; the body's own bounds symbolic up to 2^40)
//@ fns: src/token/variance/mod.rs::TokenVariance::product
//@ pre: n in gamma(r); x <= y both in gamma(a); n*x <= s <= n*y
//@ post: s in gamma(a x r)
fn ob_c10_var_product_small_lo2(hi: u8, n: u8, ka: u8, a1: usize, a2: usize, x: usize, y: usize, s: usize) {
    product_small(2, hi, n, ka, a1, a2, x, y, s)
}
//@ob C10.var.product.small.lo3
//@ props: C10
//@ kind: bounded(repetition bounds enumerated: lower = 3, upper = 3 or open, n <= 4 repetitions; the body's own bounds symbolic up to 2^40)
//@ fns: src/token/variance/mod.rs::TokenVariance::product
//@ pre: n in gamma(r); x <= y both in gamma(a); n*x <= s <= n*y
//@ post: s in gamma(a x r)
fn ob_c10_var_product_small_lo3(hi: u8, n: u8, ka: u8, a1: usize, a2: usize, x: usize, y: usize, s: usize) {
    product_small(3, hi, n, ka, a1, a2, x, y, s)
}

// ---------------------------------------------------------------------------------------------
// C10/C09/C05: the product for ALL usize bounds. CBMC cannot decide a symbolic 64x64-bit multiplier
// (measured: no verdict in 25 min even when the harness multiplies the very same operands), so the two
// multiplication primitives the real code uses (`usize::checked_mul`, `NonZeroUsize::checked_mul`) are
// replaced (-Z stubbing) by an ORACLE: an arbitrary function constrained only by facts that hold of
// multiplication (commutative, zero, one, >= each non-zero factor, monotone, strictly monotone) and
// that is consistent across calls (memo table). What Kani proves then holds for every such function;
// `C10.verus.lemma.mul-oracle-axioms` (Verus, nonlinear arithmetic) proves that the product of naturals
// is one of them, and `C10.verus.lemma.sum_bounds` turns the interval ends into the depth of any
// number of repetitions. Unchecked: that std's checked_mul returns Some(a * b) when representable
// (T5); the overflow `expect` is the known finding C05.overflow-expect (the oracle never overflows).
// ---------------------------------------------------------------------------------------------
#[cfg(kani)]
static mut MUL_MEMO: [(usize, usize, usize); 4] = [(0, 0, 0); 4];
#[cfg(kani)]
static mut MUL_USED: usize = 0;
#[cfg(kani)]
fn mul_oracle(a: usize, b: usize) -> usize {
    let (a, b) = if a <= b { (a, b) } else { (b, a) };
    // SAFETY: single-threaded verifier-only state.
    unsafe {
        let mut i = 0;
        while i < MUL_USED {
            if MUL_MEMO[i].0 == a && MUL_MEMO[i].1 == b {
                return MUL_MEMO[i].2;
            }
            i += 1;
        }
        let r: usize = kani::any();
        kani::assume(if a == 0 || b == 0 { r == 0 } else { r >= a && r >= b });
        kani::assume(b != 1 || r == a);
        kani::assume(a != 1 || r == b);
        let mut j = 0;
        while j < MUL_USED {
            let (a2, b2, r2) = MUL_MEMO[j];
            if a <= a2 && b <= b2 {
                kani::assume(r <= r2);
                if a != 0 && b != 0 && (a < a2 || b < b2) {
                    kani::assume(r < r2);
                }
            }
            if a2 <= a && b2 <= b {
                kani::assume(r2 <= r);
                if a2 != 0 && b2 != 0 && (a2 < a || b2 < b) {
                    kani::assume(r2 < r);
                }
            }
            j += 1;
        }
        // a full table only loses consistency between calls (an over-approximation)
        if MUL_USED < 4 {
            MUL_MEMO[MUL_USED] = (a, b, r);
            MUL_USED += 1;
        }
        r
    }
}
#[cfg(not(kani))]
fn mul_oracle(a: usize, b: usize) -> usize {
    a.wrapping_mul(b)
}
fn stub_usize_checked_mul(a: usize, b: usize) -> Option<usize> {
    Some(mul_oracle(a, b))
}
fn stub_nz_checked_mul(a: NonZeroUsize, b: NonZeroUsize) -> Option<NonZeroUsize> {
    NonZeroUsize::new(mul_oracle(a.get(), b.get()))
}
// interval ends of a depth variance: lowest member, highest member (None = no upper bound)
fn lo_tv(k: u8, a: usize) -> usize {
    match k {
        0 | 2 | 4 => a,
        _ => 0,
    }
}
fn hi_tv(k: u8, a: usize, b: usize) -> Option<usize> {
    match k {
        0 | 3 => Some(a),
        4 => a.checked_add(b),
        _ => None,
    }
}

//@ob C10.var.product.structure
//@ props: C10 C09 C05
//@ kind: complete
//@ replay: none
//@ unwind: 6
//@ stub: usize::checked_mul=stub_usize_checked_mul
//@ stub: core::num::NonZero::<usize>::checked_mul=stub_nz_checked_mul
//@ fns: src/token/variance/mod.rs::TokenVariance::product src/token/variance/natural.rs::BoundedVariantRange::product src/token/variance/natural.rs::BoundedVariantRange::product<NonZeroUsize> src/token/variance/natural.rs::NaturalBound::product src/token/variance/natural.rs::NaturalRange::by_bound_with src/token/variance/natural.rs::NaturalRange::from_closed_and_open src/token/variance/natural.rs::Depth::product<VariantRange> src/token/variance/ops.rs::usize::product src/token/variance/ops.rs::NonZeroUsize::product
//@ pre: ANY well-formed depth variance a (all five shapes, all usize bounds) and ANY ordered, non-degenerate repetition range [rl, ru] (T6); M = the multiplication oracle
//@ post: every s with M(lo a, rl) <= s <= M(hi a, ru) (no upper end if either has none and the other is not zero) lies in gamma(a x r) -- with the two Verus lemmas: the depth of any permitted number of repetitions of any body the term describes is inside the reported bounds; the result has an upper bound EXACTLY when a bounded body is repeated a bounded number of times (no false 'always exhaustive', no hidden unbounded part); no panic, no unreachable arm
fn ob_c10_var_product_structure(ka: u8, a1: usize, a2: usize, rl: usize, bounded: bool, ru: usize, s: usize) {
    vassume!(ka <= 4 && valid_tv(ka, a1, a2));
    vassume!(!bounded || (rl <= ru && ru != 0));
    let ru = if bounded { Some(ru) } else { None };
    let a: TV = mk_tv(ka, a1, a2);
    let r = NaturalRange::from_closed_and_open(rl, ru);
    let (la, ha) = (lo_tv(ka, a1), hi_tv(ka, a1, a2));
    let p = ops::product(a, r);
    let lo = mul_oracle(la, rl);
    let hi: Option<usize> = match (ha, ru) {
        (Some(0), _) => Some(0),
        (Some(h), Some(u)) => Some(mul_oracle(h, u)),
        _ => None,
    };
    vassume!(lo <= s && hi.map_or(true, |h| s <= h));
    vcover!(ka == 4 && bounded && rl > 1 && rl < ru.unwrap());
    vcover!(ka == 0 && !bounded);
    vcover!(ka == 3 && rl == 0);
    vcover!(ka == 2 && bounded);
    assert!(mem(&p, s as u128), "C10 a x r contains [lo(a) * lo(r), hi(a) * hi(r)]");
    assert!(p.has_upper_bound() == hi.is_some(), "C09 a repetition is depth-bounded exactly when a bounded body is repeated a bounded number of times");
}

// ---------------------------------------------------------------------------------------------
// C09: the exhaustiveness verdict is "the depth has no upper bound", so the algebra must not LOSE an
// upper bound (an over-approximation that is harmless for C10 turns into a false 'always' for C09)
// ---------------------------------------------------------------------------------------------

//@ob C09.var.upper-bound.conjunction-disjunction
//@ props: C09
//@ kind: complete
//@ fns: src/token/variance/mod.rs::TokenVariance::conjunction src/token/variance/mod.rs::TokenVariance::disjunction src/token/variance/mod.rs::Variance::has_upper_bound src/token/variance/natural.rs::BoundedVariantRange::translation src/token/variance/natural.rs::BoundedVariantRange::opened_upper_bound src/token/variance/natural.rs::BoundedVariantRange::union
//@ pre: a, b well-formed depth variances with bounds <= 2^62
//@ post: a /\ b and a \/ b have an upper bound exactly when both operands have one: a concatenation or alternation of depth-bounded parts is never reported unbounded (no false 'always exhaustive'), and an unbounded part is never hidden
fn ob_c09_var_upper_bound_conjunction_disjunction(ka: u8, a1: usize, a2: usize, kb: u8, b1: usize, b2: usize) {
    vassume!(ka <= 4 && kb <= 4 && valid_tv(ka, a1, a2) && valid_tv(kb, b1, b2));
    vassume!(magnitude(ka, a1, a2) <= BIG as u128 && magnitude(kb, b1, b2) <= BIG as u128);
    let a: TV = mk_tv(ka, a1, a2);
    let b: TV = mk_tv(kb, b1, b2);
    vcover!(ka == 3 && kb == 0);
    vcover!(ka == 4 && kb == 2);
    let both = a.has_upper_bound() && b.has_upper_bound();
    assert!(ops::conjunction(a, b).has_upper_bound() == both, "C09 a concatenation is depth-bounded exactly when both parts are");
    assert!(ops::disjunction(a, b).has_upper_bound() == both, "C09 an alternation is depth-bounded exactly when both branches are");
    assert!(a.has_upper_bound() == matches!(ka, 0 | 3 | 4), "C09 has_upper_bound reads the representation");
}

//@ob C09.var.upper-bound.product
//@ props: C09
//@ kind: bounded(repetition bounds enumerated: lower <= 3, upper <= 3 or open; the body's bounds symbolic up to 2^40)
//@ fns: src/token/variance/mod.rs::TokenVariance::product src/token/variance/natural.rs::BoundedVariantRange::product
//@ pre: a well-formed depth variance a, an enumerated repetition range r
//@ post: a bounded body repeated a bounded number of times is depth-bounded (never a false 'always'); an unbounded body or an open repetition of a body with components is unbounded
fn ob_c09_var_upper_bound_product(ka: u8, a1: usize, a2: usize, lo: u8, hi: u8) {
    vassume!(ka <= 4 && valid_tv(ka, a1, a2) && magnitude(ka, a1, a2) <= M40 as u128 && valid_rep(lo, hi));
    let a: TV = mk_tv(ka, a1, a2);
    let p = ops::product(a, rep_range(lo, hi));
    vcover!(ka == 3 && hi == 3);
    vcover!(ka == 0 && a1 == 2 && hi == 4);
    if a.has_upper_bound() && hi != 4 {
        assert!(p.has_upper_bound(), "C09 a bounded body repeated a bounded number of times is depth-bounded");
    }
    if !a.has_upper_bound() && lo >= 1 {
        assert!(!p.has_upper_bound(), "C09 an unbounded body stays unbounded under repetition");
    }
    if hi == 4 && !(ka == 0 && a1 == 0) {
        assert!(!p.has_upper_bound(), "C09 an open repetition of a body with components is unbounded");
    }
}

//@ob C10.natural.opened-bounds
//@ props: C10 C09 C05
//@ kind: complete
//@ fns: src/token/variance/natural.rs::BoundedVariantRange::opened_upper_bound src/token/variance/natural.rs::BoundedVariantRange::opened_lower_bound src/token/variance/natural.rs::BoundedVariantRange::lower src/token/variance/natural.rs::BoundedVariantRange::upper src/token/variance/natural.rs::VariantRange::lower src/token/variance/natural.rs::VariantRange::upper src/token/variance/natural.rs::NonZeroLower::into_usize src/token/variance/natural.rs::NonZeroUpper::into_usize
//@ pre: any well-formed bounded range r (all of usize), any natural x
//@ post: opened_upper_bound(r) denotes exactly [lower(r), inf) -- what a bounded term plus an unbounded one can reach --, opened_lower_bound(r) exactly [0, upper(r)]; lower() / upper() read back the bounds gamma(r) is defined by
fn ob_c10_natural_opened_bounds(k: u8, a: usize, b: usize, x: usize) {
    vassume!(k <= 2 && valid_bvr(k, a, b));
    let r = mk_bvr(k, a, b);
    vcover!(k == 2);
    vcover!(k == 1);
    let lo = r.lower().into_usize();
    let hi = r.upper().into_usize();
    assert!(mem_bvr(&r, x as u128) == (x >= lo && hi.map_or(true, |h| x <= h)), "C10 lower() / upper() read back the bounds of the range");
    let opened = r.opened_upper_bound();
    assert!(mem_vr(&opened, x as u128) == (x >= lo), "C10 opening the upper bound keeps exactly the lower bound");
    assert!(opened.upper().into_usize().is_none() && opened.lower().into_usize() == lo, "C09 an opened upper bound is open");
    let opened = r.opened_lower_bound();
    assert!(mem_vr(&opened, x as u128) == hi.map_or(true, |h| x <= h), "C10 opening the lower bound keeps exactly the upper bound");
}

//@ob C10.natural.union
//@ props: C10 C09 C05
//@ kind: complete
//@ fns: src/token/variance/natural.rs::BoundedVariantRange::union src/token/variance/natural.rs::NaturalRange::by_lower_and_upper_with src/token/variance/natural.rs::BoundedVariantRange::disjunction src/token/variance/natural.rs::Depth::disjunction<BoundedVariantRange>
//@ pre: a well-formed bounded range r and a second operand: another bounded range or an invariant n (all of usize), any natural x
//@ post: the union contains both operands and nothing outside their convex hull: its lower bound is the smaller lower bound (0 if one is open) and its upper bound the larger upper bound (none if one is open) -- an alternation never reports a depth that lies outside the range spanned by its branches, and keeps an upper bound exactly when both branches have one
fn ob_c10_natural_union(k: u8, a: usize, b: usize, other_is_range: bool, k2: u8, a2: usize, b2: usize, x: usize) {
    vassume!(k <= 2 && valid_bvr(k, a, b));
    vassume!(!other_is_range || (k2 <= 2 && valid_bvr(k2, a2, b2)));
    let r = mk_bvr(k, a, b);
    let (lo1, hi1) = (r.lower().into_usize(), r.upper().into_usize());
    let (u, lo2, hi2, in2) = if other_is_range {
        let s = mk_bvr(k2, a2, b2);
        (ops::disjunction(r, s), s.lower().into_usize(), s.upper().into_usize(), mem_bvr(&s, x as u128))
    }
    else {
        (ops::disjunction(r, Depth::new(a2)), a2, Some(a2), x == a2)
    };
    vcover!(other_is_range && k == 2 && k2 == 2);
    vcover!(!other_is_range && k == 1);
    let lo = core::cmp::min(lo1, lo2);
    let hi = match (hi1, hi2) {
        (Some(p), Some(q)) => Some(core::cmp::max(p, q)),
        _ => None,
    };
    assert!(!(mem_bvr(&r, x as u128) || in2) || mem_vr(&u, x as u128), "C10 a union contains both operands");
    assert!(mem_vr(&u, x as u128) == (x >= lo && hi.map_or(true, |h| x <= h)), "C10/C09 a union is exactly the convex hull of its operands");
}

//@ob C10.natural.invariant-bounds
//@ props: C10 C09 C05
//@ kind: complete
//@ fns: src/token/variance/natural.rs::Depth::bound src/token/variance/natural.rs::Depth::into_lower_bound src/token/variance/natural.rs::Size::bound src/token/variance/natural.rs::Size::into_lower_bound src/token/variance/natural.rs::BoundedVariantRange::conjunction<Depth> src/token/variance/natural.rs::BoundedVariantRange::try_from_lower_and_upper
//@ pre: two distinct invariants p != q (all of usize), any natural x; a bounded range r and an invariant n whose translated bounds are representable
//@ post: bound(p, q) denotes exactly [min(p,q), max(p,q)] (two alternatives of different invariant depth); into_lower_bound(n) denotes exactly [n, inf) (an invariant part next to an unbounded part); r conjoined with the invariant n denotes gamma(r) shifted by n
fn ob_c10_natural_invariant_bounds(p: usize, q: usize, x: usize, k: u8, a: usize, b: usize, n: usize) {
    vassume!(p != q);
    let (lo, hi) = (core::cmp::min(p, q), core::cmp::max(p, q));
    vcover!(p > q && q == 0);
    let bd = <Depth as InvariantTrait>::bound(Depth::new(p), Depth::new(q));
    let bs = <Size as InvariantTrait>::bound(Size::new(p), Size::new(q));
    assert!(mem_vr(&bd, x as u128) == (lo <= x && x <= hi), "C10 bound(p, q) is the hull of the two invariants");
    assert!(mem_vr(&bs, x as u128) == (lo <= x && x <= hi), "C10 bound(p, q) is the hull of the two invariants (Size)");
    let lower = Depth::new(p).into_lower_bound();
    assert!(mem_vr(&lower, x as u128) == (x >= p), "C10 into_lower_bound(n) is [n, inf)");
    assert!(mem_vr(&Size::new(p).into_lower_bound(), x as u128) == (x >= p));
    // bounded range + invariant
    vassume!(k <= 2 && valid_bvr(k, a, b));
    vassume!((if k == 2 { a as u128 + b as u128 } else { a as u128 }) + n as u128 <= usize::MAX as u128);
    let r = mk_bvr(k, a, b);
    let shifted = ops::conjunction(r, Depth::new(n));
    assert!(x < n || mem_bvr(&shifted, x as u128) == mem_bvr(&r, (x - n) as u128), "C10 a range plus an invariant is the range shifted by it");
    assert!(x >= n || !mem_bvr(&shifted, x as u128) || matches!(r, BoundedVariantRange::Upper(_)), "C10 only an upper-bounded range keeps depths below the invariant");
}

//@ob C10.natural.from_closed_and_open
//@ props: C10 C19 C05
//@ kind: complete
//@ fns: src/token/variance/natural.rs::NaturalRange::from_closed_and_open src/token/variance/natural.rs::NaturalRange::lower src/token/variance/natural.rs::NaturalRange::upper src/token/variance/natural.rs::NaturalLower::into_usize src/token/variance/natural.rs::NaturalUpper::into_usize src/token/variance/natural.rs::BoundedVariantRange::try_from_lower_and_upper src/token/variance/natural.rs::NaturalRange::is_one src/token/variance/natural.rs::NaturalRange::is_zero
//@ pre: none (all usize x Option<usize>)
//@ post: the range denotes [min(c,o), max(c,o)] or [c, inf) when open; lower()/upper() read back exactly these bounds (so a repetition's bounds survive Repetition::variance() and the read-back that compose uses)
fn ob_c10_natural_from_closed_and_open(closed: usize, has_open: bool, open: usize, n: usize) {
    let o = if has_open { Some(open) } else { None };
    let r = NaturalRange::from_closed_and_open(closed, o);
    let (lo, hi) = match o {
        Some(o) => (core::cmp::min(closed, o), Some(core::cmp::max(closed, o))),
        None => (closed, None),
    };
    vcover!(has_open && closed > open);
    vcover!(has_open && closed == open);
    vcover!(!has_open && closed == 0);
    assert!(
        mem_nr(&r, n as u128) == (n >= lo && hi.map_or(true, |h| n <= h)),
        "C10 repetition range denotes its bounds"
    );
    assert!(r.lower().into_usize() == lo, "C19 lower bound read back");
    assert!(r.upper().into_usize() == hi, "C19 upper bound read back");
    assert!(r.is_one() == (lo == 1 && hi == Some(1)), "C19 only the range of exactly 1 is 'exactly once' (a once-only repetition is the only one that may be collapsed)");
    assert!(r.is_zero() == (lo == 0 && hi == Some(0)), "C19 only the range of exactly 0 is zero");
}

// ---------------------------------------------------------------------------------------------
// C05: totality on the FULL machine domain (no functional assertion; Kani's panic, overflow,
// unwrap/expect and unreachable checks are the postcondition)
// ---------------------------------------------------------------------------------------------

fn overflow2(ka: u8, a1: usize, a2: usize, kb: u8, b1: usize, b2: usize) -> bool {
    magnitude(ka, a1, a2) + magnitude(kb, b1, b2) > usize::MAX as u128
}

//@ob C05.var.conjunction.total
//@ props: C05
//@ kind: complete
//@ fns: src/token/variance/mod.rs::TokenVariance::conjunction src/token/variance/natural.rs::BoundedVariantRange::conjunction src/token/variance/natural.rs::BoundedVariantRange::translation src/token/variance/ops.rs::usize::conjunction
//@ pre: a, b any well-formed depth / size variances (all of usize)
//@ post: conjunction returns (no panic, no overflow, no unreachable) for Depth and for Size
fn ob_c05_var_conjunction_total(ka: u8, a1: usize, a2: usize, kb: u8, b1: usize, b2: usize) {
    vassume!(ka <= 4 && kb <= 4 && valid_tv(ka, a1, a2) && valid_tv(kb, b1, b2));
    vcover!(ka == 4 && kb == 0);
    let a: TV = mk_tv(ka, a1, a2);
    let b: TV = mk_tv(kb, b1, b2);
    let _ = ops::conjunction(a, b);
    let a: TS = mk_tv(ka, a1, a2);
    let b: TS = mk_tv(kb, b1, b2);
    let _ = ops::conjunction(a, b);
}
fn region_c05_conj_overflow(ka: u8, a1: usize, a2: usize, kb: u8, b1: usize, b2: usize) -> bool {
    overflow2(ka, a1, a2, kb, b1, b2)
}

//@ob C05.var.disjunction.total
//@ props: C05
//@ kind: complete
//@ fns: src/token/variance/mod.rs::TokenVariance::disjunction src/token/variance/natural.rs::BoundedVariantRange::union src/token/variance/natural.rs::Depth::bound
//@ pre: a, b any well-formed depth / size variances (all of usize)
//@ post: disjunction returns (no panic, no unreachable) for Depth and for Size
fn ob_c05_var_disjunction_total(ka: u8, a1: usize, a2: usize, kb: u8, b1: usize, b2: usize) {
    vassume!(ka <= 4 && kb <= 4 && valid_tv(ka, a1, a2) && valid_tv(kb, b1, b2));
    vcover!(ka == 4 && kb == 0);
    let a: TV = mk_tv(ka, a1, a2);
    let b: TV = mk_tv(kb, b1, b2);
    let _ = ops::disjunction(a, b);
    let a: TS = mk_tv(ka, a1, a2);
    let b: TS = mk_tv(kb, b1, b2);
    let _ = ops::disjunction(a, b);
}

//@ob C05.var.product.total.depth
//@ props: C05
//@ kind: bounded(repetition bounds enumerated: lower <= 3, upper <= 3 or open -- a symbolic 64x64-bit multiplication is intractable for the SAT back end, measured with operands <= 2^32: no verdict in 240 s; the body's bounds symbolic up to 2^61 so that the exact product is representable. The overflow region is the known finding C05.overflow-expect)
//@ fns: src/token/variance/mod.rs::TokenVariance::product src/token/variance/natural.rs::BoundedVariantRange::product src/token/variance/natural.rs::NaturalBound::product src/token/variance/ops.rs::usize::product src/token/variance/natural.rs::VariantRange::product src/token/variance/natural.rs::Depth::product
//@ pre: a any well-formed depth / size variance with bounds <= 2^61, r an enumerated repetition range
//@ post: product returns (no panic, no overflow, no unreachable) for Depth
fn ob_c05_var_product_total_depth(ka: u8, a1: usize, a2: usize, lo: u8, hi: u8) {
    vassume!(ka <= 4 && valid_tv(ka, a1, a2) && magnitude(ka, a1, a2) <= 1u128 << 61);
    vassume!(valid_rep(lo, hi));
    let r = rep_range(lo, hi);
    vcover!(ka == 4 && lo == 2 && hi == 3);
    vcover!(ka == 3 && hi == 4);
    let a: TV = mk_tv(ka, a1, a2);
    let _ = ops::product(a, r);
}

//@ob C05.var.product.total.size
//@ props: C05
//@ kind: bounded(repetition bounds enumerated: lower <= 3, upper <= 3 or open -- a symbolic 64x64-bit multiplication is intractable for the SAT back end, measured with operands <= 2^32: no verdict in 240 s; the body's bounds symbolic up to 2^61 so that the exact product is representable. The overflow region is the known finding C05.overflow-expect)
//@ fns: src/token/variance/mod.rs::TokenVariance::product src/token/variance/natural.rs::BoundedVariantRange::product src/token/variance/natural.rs::NaturalBound::product src/token/variance/ops.rs::usize::product src/token/variance/natural.rs::VariantRange::product src/token/variance/natural.rs::Depth::product
//@ pre: a any well-formed depth / size variance with bounds <= 2^61, r an enumerated repetition range
//@ post: product returns (no panic, no overflow, no unreachable) for Size
fn ob_c05_var_product_total_size(ka: u8, a1: usize, a2: usize, lo: u8, hi: u8) {
    vassume!(ka <= 4 && valid_tv(ka, a1, a2) && magnitude(ka, a1, a2) <= 1u128 << 61);
    vassume!(valid_rep(lo, hi));
    let r = rep_range(lo, hi);
    vcover!(ka == 4 && lo == 2 && hi == 3);
    vcover!(ka == 3 && hi == 4);
    let a: TS = mk_tv(ka, a1, a2);
    let _ = ops::product(a, r);
}

// ---- attribute contracts on the inherent functions of BoundedVariantRange (inject.json) ----------

#[cfg(kani)]
impl kani::Arbitrary for BoundedVariantRange {
    fn any() -> Self {
        let (k, a, b): (u8, usize, usize) = (kani::any(), kani::any(), kani::any());
        kani::assume(k <= 2 && valid_bvr(k, a, b));
        mk_bvr(k, a, b)
    }
}

//@ob C10.contract.upper_from_lower_extent
//@ props: C10 C05
//@ kind: complete
//@ contract: BoundedVariantRange::upper_from_lower_extent
//@ fns: src/token/variance/natural.rs::BoundedVariantRange::upper_from_lower_extent
//@ pre: [attribute contract] lower + extent representable (the invariant try_from_lower_and_upper establishes)
//@ post: [attribute contract] result = lower + extent
fn ob_c10_contract_upper_from_lower_extent(lower: usize, extent: usize) {
    vassume!(lower != 0 && extent != 0 && lower.checked_add(extent).is_some());
    let r = BoundedVariantRange::upper_from_lower_extent(nz(lower), nz(extent));
    vreplay_assert!(r.get() == lower + extent, "C10 contract of upper_from_lower_extent");
}

//@ob C10.contract.upper
//@ props: C10 C05
//@ kind: complete
//@ contract: BoundedVariantRange::upper
//@ stub_verified: BoundedVariantRange::upper_from_lower_extent
//@ fns: src/token/variance/natural.rs::BoundedVariantRange::upper
//@ pre: [attribute contract] well-formed range (lower + extent representable)
//@ post: [attribute contract, proved MODULARLY against the contract of upper_from_lower_extent] upper() reads back lower + extent for Both, the bound for Upper, nothing for Lower
fn ob_c10_contract_upper(k: u8, a: usize, b: usize) {
    vassume!(k <= 2 && valid_bvr(k, a, b));
    let r = mk_bvr(k, a, b);
    let u = r.upper().into_usize();
    vreplay_assert!(u == match k { 0 => None, 1 => Some(a), _ => Some(a + b) }, "C10 contract of upper");
}

//@ob C10.contract.translation
//@ props: C10 C05
//@ kind: complete
//@ contract: BoundedVariantRange::translation
//@ fns: src/token/variance/natural.rs::BoundedVariantRange::translation
//@ pre: [attribute contract] the translated upper-most bound is representable
//@ post: [attribute contract] same kind, same extent, every bound moved up by exactly `vector`
fn ob_c10_contract_translation(k: u8, a: usize, b: usize, vector: usize) {
    vassume!(k <= 2 && valid_bvr(k, a, b));
    vassume!((if k == 2 { a as u128 + b as u128 } else { a as u128 }) + vector as u128 <= usize::MAX as u128);
    let r = mk_bvr(k, a, b).translation(vector);
    vreplay_assert!(mem_bvr(&r, a as u128 + vector as u128), "C10 contract of translation");
}

//@ob C10.var.conjunction.modular
//@ props: C10
//@ kind: complete
//@ stub_verified: BoundedVariantRange::translation
//@ fns: src/token/variance/mod.rs::TokenVariance::conjunction src/token/variance/natural.rs::Depth::conjunction<BoundedVariantRange>
//@ pre: a bounded depth variance a and an invariant depth n (either order), bounds <= 2^62; x in gamma(a)
//@ post: [MODULAR: the call to BoundedVariantRange::translation is replaced by its verified contract, its body is not in the goto program] x + n in gamma(a /\ n)
fn ob_c10_var_conjunction_modular(k: u8, a1: usize, a2: usize, n: usize, x: usize, flip: bool) {
    vassume!(k <= 2 && valid_bvr(k, a1, a2) && magnitude(k + 2, a1, a2) <= BIG as u128 && n <= BIG && x <= BIG);
    let a: TV = Variance::Variant(Bounded(mk_bvr(k, a1, a2)));
    let b: TV = Variance::Invariant(Depth::new(n));
    vassume!(mem(&a, x as u128));
    vcover!(k == 2 && flip);
    let r = if flip { ops::conjunction(b, a) } else { ops::conjunction(a, b) };
    assert!(mem(&r, x as u128 + n as u128), "C10 bounded variance plus an invariant depth (against the contract of translation)");
}

//@ob C10.natural.canary
//@ props: C10 C05 C19
//@ kind: canary
//@ fns: -
//@ pre: none
//@ post: must FAIL
fn ob_c10_natural_canary(x: u8) {
    let _ = NaturalRange::from_closed_and_open(x as usize, None);
    assert!(x != 7, "canary");
}
