// Contracts for src/filter.rs (C13, C16, C20, C05). Injected as a child module of `filter`.
//
// Vocabulary (DESIGN §4): rank(Filtrate) = 0, rank(node residue) = 1, rank(tree residue) = 2;
// verdict None = 0 (keep), Node/File = 1, Tree = 2. `cancels` = number of `cancel_walk_tree` calls
// observed by a counting mock. walkdir's `skip_current_dir` pops one directory level PER CALL (T4),
// so "at most one cancellation per entry" is part of "only the discarded tree is skipped".
use super::*;
use crate::verif_prelude::*;

#[derive(Clone, Copy, Debug, Eq, PartialEq)]
pub(crate) struct P(pub u8);

pub(crate) struct Mock {
    pub cancels: u32,
}
impl CancelWalk for Mock {
    fn cancel_walk_tree(&mut self) {
        self.cancels += 1;
    }
}

type F = (P, TreeResidue<P>);

impl Isomeric for F {
    type Substituent<'a> = P;

    fn substituent(separation: &Separation<Self>) -> Self::Substituent<'_> {
        match separation {
            Separation::Filtrate(ref filtrate) => *filtrate.get(),
            Separation::Residue(ref residue) => *residue.get().get(),
        }
    }
}

// rank: 0 filtrate, 1 node residue, 2 tree residue
fn mk_sep(rank: u8, payload: u8) -> Separation<F> {
    match rank {
        0 => Separation::from_inner_filtrate(P(payload)),
        1 => Separation::from_inner_residue(TreeResidue::Node(P(payload))),
        _ => Separation::from_inner_residue(TreeResidue::Tree(P(payload))),
    }
}
fn rank<T, R>(s: &Separation<(T, TreeResidue<R>)>) -> u8 {
    match s {
        Separation::Filtrate(_) => 0,
        Separation::Residue(r) => match r.get() {
            TreeResidue::Node(_) => 1,
            TreeResidue::Tree(_) => 2,
        },
    }
}
fn payload(s: &Separation<F>) -> u8 {
    match s {
        Separation::Filtrate(f) => f.get().0,
        Separation::Residue(r) => r.get().get().0,
    }
}
fn verdict(v: u8) -> Option<TreeResidue<()>> {
    match v {
        0 => None,
        1 => Some(TreeResidue::Node(())),
        _ => Some(TreeResidue::Tree(())),
    }
}
fn max2(a: u8, b: u8) -> u8 {
    if a >= b { a } else { b }
}

//@ob C13.sep.filter_map_tree
//@ props: C13 C05
//@ kind: complete
//@ fns: src/filter.rs::Separation::filter_map_tree src/filter.rs::WalkCancellation::cancel_walk_tree
//@ pre: any separation (filtrate / node residue / tree residue), any payload
//@ post: cancellation is invoked exactly once unless the input is already tree residue (then not at all); the payload is unchanged and passed through f exactly when the input was filtrate
fn ob_c13_sep_filter_map_tree(r0: u8, p0: u8) {
    vassume!(r0 <= 2);
    let s = mk_sep(r0, p0);
    let mut m = Mock { cancels: 0 };
    let mut calls = 0u32;
    let out = s.filter_map_tree(WalkCancellation::unchecked(&mut m), |x| {
        calls += 1;
        x
    });
    vcover!(r0 == 0);
    vcover!(r0 == 2);
    assert!(m.cancels == if r0 == 2 { 0 } else { 1 }, "C13 a tree verdict cancels exactly once unless already tree residue");
    assert!(payload(&out) == p0, "C13 payload preserved");
    assert!(calls == if r0 == 0 { 1 } else { 0 });
    assert!(rank(&out) != 0, "C16 never back to filtrate");
}

//@ob C16.sep.transition
//@ props: C16 C13
//@ kind: complete
//@ fns: src/filter.rs::Separation::filter_tree_by_substituent src/filter.rs::Separation::filter_map_tree src/filter.rs::Separation::filter_map_node src/filter.rs::Separation::filter_map
//@ pre: any separation, any verdict (keep / file / tree) returned by the filter closure
//@ post: rank(out) = max(rank(in), rank(verdict)) -- the join of keep < file < tree: never back to filtrate, a tree never becomes a file, a tree verdict is remembered as tree; payload preserved; the closure sees the entry's payload; cancellation iff verdict is tree and the input was not already tree residue
fn ob_c16_sep_transition(r0: u8, p0: u8, v: u8) {
    vassume!(r0 <= 2 && v <= 2);
    let s = mk_sep(r0, p0);
    let mut m = Mock { cancels: 0 };
    let mut seen: Option<u8> = None;
    let out = s.filter_tree_by_substituent(WalkCancellation::unchecked(&mut m), |sub| {
        seen = Some(sub.0);
        verdict(v)
    });
    vcover!(r0 == 0 && v == 2);
    vcover!(r0 == 1 && v == 2);
    vcover!(r0 == 2 && v == 1);
    assert!(seen == Some(p0), "C16 the filter observes the entry (also when it is already residue)");
    assert!(payload(&out) == p0, "C16 payload preserved");
    assert!(m.cancels == if v == 2 && r0 != 2 { 1 } else { 0 }, "C13 cancellation iff tree verdict on an entry that is not yet tree residue");
    assert!(rank(&out) == max2(r0, v), "C16 one layer is the lattice join keep < file < tree");
}

//@ob C13.stack2.cancel-once
//@ props: C13 C16
//@ kind: complete
//@ fns: src/filter.rs::Separation::filter_tree_by_substituent src/filter.rs::Separation::filter_map_tree
//@ pre: any separation, two stacked layers with any verdicts v1, v2 for the same entry
//@ post: cancellation is invoked at most once in total (walkdir's skip_current_dir pops one directory level per call, so a second cancellation for the same entry loses the rest of the parent directory); it is invoked iff some verdict is tree and the input was not tree residue; rank(out) = max of all three
fn ob_c13_stack2_cancel_once(r0: u8, p0: u8, v1: u8, v2: u8) {
    vassume!(r0 <= 2 && v1 <= 2 && v2 <= 2);
    let s = mk_sep(r0, p0);
    let mut m = Mock { cancels: 0 };
    let s1 = s.filter_tree_by_substituent(WalkCancellation::unchecked(&mut m), |_| verdict(v1));
    let s2 = s1.filter_tree_by_substituent(WalkCancellation::unchecked(&mut m), |_| verdict(v2));
    vcover!(r0 == 0 && v1 == 2 && v2 == 2);
    vcover!(r0 == 0 && v1 == 1 && v2 == 2);
    assert!(m.cancels <= 1, "C13 an entry is cancelled at most once across stacked layers");
    assert!((m.cancels == 1) == (r0 != 2 && (v1 == 2 || v2 == 2)), "C13 cancelled iff some layer says tree");
    assert!(rank(&s2) == max2(r0, max2(v1, v2)), "C16 two layers are the join of both verdicts, in either order");
    assert!(payload(&s2) == p0);
}

//@ob C16.sep.filter_map_node
//@ props: C16 C13 C05
//@ kind: complete
//@ fns: src/filter.rs::Separation::filter_map_node src/filter.rs::Separation::filter_map
//@ pre: any separation
//@ post: filtrate becomes node residue, residue is unchanged (a file discard never upgrades or downgrades); payload preserved; no cancellation is possible (the function takes no cancellation handle)
fn ob_c16_sep_filter_map_node(r0: u8, p0: u8) {
    vassume!(r0 <= 2);
    let s = mk_sep(r0, p0);
    let mut calls = 0u32;
    let out = s.filter_map_node(|x| {
        calls += 1;
        x
    });
    vcover!(r0 == 0);
    vcover!(r0 == 2);
    assert!(rank(&out) == max2(r0, 1), "C16 file verdict is the join with rank 1");
    assert!(payload(&out) == p0);
    assert!(calls == if r0 == 0 { 1 } else { 0 });
}

//@ob C13.filtrate.filter_tree
//@ props: C13 C05
//@ kind: complete
//@ fns: src/filter.rs::Filtrate::filter_tree src/filter.rs::Filtrate::filter_map_tree src/filter.rs::Filtrate::filter_node src/filter.rs::Filtrate::filter_map_node src/filter.rs::Filtrate::filter src/filter.rs::Filtrate::filter_map
//@ pre: any filtrate payload
//@ post: filter_tree / filter_map_tree cancel exactly once and give tree residue; filter_node / filter_map_node give node residue (they take no cancellation handle); payload preserved
fn ob_c13_filtrate_filter_tree(p0: u8) {
    let mut m = Mock { cancels: 0 };
    let r: Residue<TreeResidue<P>> = Filtrate::new(P(p0)).filter_tree(WalkCancellation::unchecked(&mut m));
    assert!(m.cancels == 1, "C13 Filtrate::filter_tree cancels exactly once");
    assert!(matches!(r.get(), TreeResidue::Tree(P(x)) if *x == p0), "C13 tree discard is recorded as tree residue");
    let r: Residue<TreeResidue<P>> = Filtrate::new(P(p0)).filter_map_tree(WalkCancellation::unchecked(&mut m), |x| x);
    assert!(m.cancels == 2);
    assert!(matches!(r.get(), TreeResidue::Tree(P(x)) if *x == p0));
    let r: Residue<TreeResidue<P>> = Filtrate::new(P(p0)).filter_node();
    assert!(matches!(r.get(), TreeResidue::Node(P(x)) if *x == p0), "C13 file discard is recorded as node residue");
    let r: Residue<TreeResidue<P>> = Filtrate::new(P(p0)).filter_map_node(|x| x);
    assert!(matches!(r.get(), TreeResidue::Node(P(x)) if *x == p0));
    let r: Residue<P> = Filtrate::new(P(p0)).filter();
    assert!(r.get().0 == p0);
    assert!(m.cancels == 2);
}

//@ob C16.sep.maps
//@ props: C16 C05
//@ kind: complete
//@ fns: src/filter.rs::Separation::map_filtrate src/filter.rs::Separation::map_residue src/filter.rs::Separation::filtrate src/filter.rs::Separation::as_filtrate src/filter.rs::Separation::transpose_filtrate
//@ pre: any separation
//@ post: map_filtrate / map_residue keep the kind (filtrate / node / tree) and apply the function to exactly the matching side; filtrate()/as_filtrate() are Some exactly for filtrate; Option-transpose keeps residue and drops only a None filtrate
fn ob_c16_sep_maps(r0: u8, p0: u8, some: bool) {
    vassume!(r0 <= 2);
    let out = mk_sep(r0, p0).map_filtrate(|x| P(x.0 ^ 0xff));
    assert!(rank(&out) == r0, "C16 map_filtrate keeps the kind");
    assert!(payload(&out) == if r0 == 0 { p0 ^ 0xff } else { p0 });
    let out = mk_sep(r0, p0).map_residue(|x| x.map(|x| P(x.0 ^ 0xff)));
    assert!(rank(&out) == r0, "C16 map_residue keeps the kind");
    assert!(payload(&out) == if r0 == 0 { p0 } else { p0 ^ 0xff });
    assert!(mk_sep(r0, p0).as_filtrate().is_some() == (r0 == 0));
    assert!(mk_sep(r0, p0).filtrate().map(|f| f.into_inner().0) == if r0 == 0 { Some(p0) } else { None });
    // Option transpose
    let s: Separation<(Option<P>, TreeResidue<P>)> = mk_sep(r0, p0).map_filtrate(|x| if some { Some(x) } else { None });
    let t = s.transpose_filtrate();
    vcover!(r0 == 0 && !some);
    match t {
        None => assert!(r0 == 0 && !some, "C16 only a None filtrate disappears"),
        Some(t) => {
            assert!(rank(&t) == r0 && payload(&t) == p0);
        },
    }
}

//@ob C20.sep.transpose_filtrate.err
//@ props: C20 C05
//@ kind: complete
//@ fns: src/filter.rs::Separation::transpose_filtrate
//@ pre: any separation over (Result<P, E>, TreeResidue<P>)
//@ post: Err(filtrate error) exactly for a filtrate that is Err, with the error unchanged; Ok otherwise with kind and payload preserved (residue is never turned into an error)
fn ob_c20_sep_transpose_filtrate_err(r0: u8, p0: u8, is_err: bool) {
    vassume!(r0 <= 2);
    let s: Separation<(Result<P, u8>, TreeResidue<P>)> =
        mk_sep(r0, p0).map_filtrate(|x| if is_err { Err(x.0) } else { Ok(x) });
    vcover!(r0 == 0 && is_err);
    vcover!(r0 == 1 && is_err);
    match s.transpose_filtrate() {
        Err(e) => {
            assert!(r0 == 0 && is_err, "C20 only an Err filtrate becomes an error");
            assert!(e.into_inner() == p0, "C20 the error is unchanged");
        },
        Ok(t) => {
            assert!(!(r0 == 0 && is_err), "C20 an Err filtrate is never swallowed");
            assert!(rank(&t) == r0 && payload(&t) == p0);
        },
    }
}

// ---- combinators over a mock hierarchical input ------------------------------------------------

pub(crate) struct MockIn {
    pub items: [u8; 3],
    pub len: usize,
    pub pos: usize,
    pub cancels: u32,
}
impl CancelWalk for MockIn {
    fn cancel_walk_tree(&mut self) {
        self.cancels += 1;
    }
}
impl Iterator for MockIn {
    type Item = P;

    fn next(&mut self) -> Option<P> {
        if self.pos < self.len {
            self.pos += 1;
            Some(P(self.items[self.pos - 1]))
        }
        else {
            None
        }
    }
}
impl SeparatingFilterInput for MockIn {
    type Feed = F;
}

//@ob C13.feed.FilterTreeBySubstituent
//@ props: C13 C16 C05
//@ kind: complete
//@ fns: src/filter.rs::FilterTreeBySubstituent::feed src/filter.rs::FilterTreeBySubstituent::cancel_walk_tree src/filter.rs::SeparatingFilter::feed
//@ pre: a one-item mock input, any verdict
//@ post: the fed item is what the input produced; verdict tree => the INPUT is cancelled exactly once and the item is tree residue; file => node residue, no cancellation; keep => filtrate, no cancellation; cancel_walk_tree on the combinator forwards to the input exactly once; an exhausted input feeds None
fn ob_c13_feed_filter_tree_by_substituent(x: u8, v: u8) {
    vassume!(v <= 2);
    let input = MockIn { items: [x, 0, 0], len: 1, pos: 0, cancels: 0 };
    let mut calls = 0u32;
    let mut filter = input.filter_tree_by_substituent(|sub: P| {
        calls += 1;
        assert!(sub.0 == x, "C16 the filter observes the fed entry");
        verdict(v)
    });
    let out = filter.feed();
    vcover!(v == 2);
    vcover!(v == 0);
    let cancels = filter.input.cancels;
    match out {
        Some(s) => {
            assert!(rank(&s) == v, "C16 verdict recorded");
            assert!(payload(&s) == x);
        },
        None => assert!(false, "C16 a fed item is never dropped"),
    }
    assert!(cancels == if v == 2 { 1 } else { 0 }, "C13 tree verdict cancels the input exactly once");
    assert!(filter.feed().is_none());
    filter.cancel_walk_tree();
    assert!(filter.input.cancels == cancels + 1, "C13 cancellation is forwarded to the input exactly once");
    drop(filter);
    assert!(calls == 1, "C16 the filter is called exactly once per entry");
}

//@ob C13.feed.FilterMapTree
//@ props: C13 C16 C05
//@ kind: complete
//@ fns: src/filter.rs::FilterMapTree::feed src/filter.rs::FilterMapTree::cancel_walk_tree
//@ pre: a one-item mock input; the closure discards as tree / file or keeps
//@ post: the closure receives the fed filtrate and a cancellation handle for the INPUT; exactly one cancellation for a tree discard, none otherwise; cancel_walk_tree forwards exactly once
fn ob_c13_feed_filter_map_tree(x: u8, v: u8) {
    vassume!(v <= 2);
    let input = MockIn { items: [x, 0, 0], len: 1, pos: 0, cancels: 0 };
    let mut filter = input.filter_map_tree(|cancellation, separation: Separation<F>| -> Separation<F> {
        let filtrate = separation.filtrate().unwrap();
        match v {
            0 => filtrate.into(),
            1 => filtrate.filter_node().into(),
            _ => filtrate.filter_tree(cancellation).into(),
        }
    });
    let out = filter.feed();
    vcover!(v == 2);
    let cancels = filter.input.cancels;
    match out {
        Some(s) => assert!(rank(&s) == v && payload(&s) == x),
        None => assert!(false),
    }
    assert!(cancels == if v == 2 { 1 } else { 0 }, "C13 only a tree discard cancels, and it cancels the input");
    assert!(filter.feed().is_none());
    filter.cancel_walk_tree();
    assert!(filter.input.cancels == cancels + 1, "C13 cancellation is forwarded to the input exactly once");
}

//@ob C16.filtrate.loop
//@ props: C16 C20 C05
//@ kind: bounded(mock input of at most 3 items; verdict per item symbolic)
//@ unwind: 5
//@ fns: src/filter.rs::filtrate src/filter.rs::FilterTreeBySubstituent::next
//@ pre: up to 3 items, each with a symbolic verdict keep / file / tree
//@ post: next() returns the first item whose verdict is keep (in input order), consumes exactly the items before it, and None when no item is kept; each discarded-as-tree item costs exactly one cancellation
fn ob_c16_filtrate_loop(items: [u8; 3], vs: [u8; 3], len: u8) {
    vassume!(len <= 3 && vs[0] <= 2 && vs[1] <= 2 && vs[2] <= 2);
    let input = MockIn { items, len: len as usize, pos: 0, cancels: 0 };
    let mut idx = 0usize;
    let mut filter = input.filter_tree_by_substituent(|_sub: P| {
        let v = verdict(vs[idx]);
        idx += 1;
        v
    });
    let got = filter.next();
    // specification: first index with verdict keep
    let mut first: Option<usize> = None;
    let mut trees = 0u32;
    let mut i = 0usize;
    while i < len as usize {
        if vs[i] == 0 {
            first = Some(i);
            break;
        }
        if vs[i] == 2 {
            trees += 1;
        }
        i += 1;
    }
    vcover!(len == 3 && first == Some(2));
    vcover!(len == 3 && first.is_none());
    match first {
        Some(i) => {
            assert!(got == Some(P(items[i])), "C16 filtrate returns the first kept item");
            assert!(filter.input.pos == i + 1, "C16 exactly the discarded items before it are consumed");
        },
        None => {
            assert!(got.is_none(), "C16 nothing kept => None");
            assert!(filter.input.pos == len as usize);
        },
    }
    assert!(filter.input.cancels == trees, "C13 one cancellation per tree discard");
}

pub(crate) struct MockIn5 {
    pub items: [u8; 5],
    pub len: usize,
    pub pos: usize,
    pub cancels: u32,
}
impl CancelWalk for MockIn5 {
    fn cancel_walk_tree(&mut self) {
        self.cancels += 1;
    }
}
impl Iterator for MockIn5 {
    type Item = P;

    fn next(&mut self) -> Option<P> {
        if self.pos < self.len {
            self.pos += 1;
            Some(P(self.items[self.pos - 1]))
        }
        else {
            None
        }
    }
}
impl SeparatingFilterInput for MockIn5 {
    type Feed = F;
}

//@ob C16.filtrate.loop.len5
//@ props: C16 C20 C05
//@ kind: bounded(mock input of at most 5 items; verdict per item symbolic)
//@ tier: thorough
//@ unwind: 7
//@ fns: src/filter.rs::filtrate src/filter.rs::FilterTreeBySubstituent::next
//@ pre: up to 5 items, each with a symbolic verdict keep / file / tree
//@ post: as C16.filtrate.loop
fn ob_c16_filtrate_loop_len5(items: [u8; 5], vs: [u8; 5], len: u8) {
    vassume!(len <= 5 && vs[0] <= 2 && vs[1] <= 2 && vs[2] <= 2 && vs[3] <= 2 && vs[4] <= 2);
    let input = MockIn5 { items, len: len as usize, pos: 0, cancels: 0 };
    let mut idx = 0usize;
    let mut filter = input.filter_tree_by_substituent(|_sub: P| {
        let v = verdict(vs[idx]);
        idx += 1;
        v
    });
    let got = filter.next();
    let mut first: Option<usize> = None;
    let mut trees = 0u32;
    let mut i = 0usize;
    while i < len as usize {
        if vs[i] == 0 {
            first = Some(i);
            break;
        }
        if vs[i] == 2 {
            trees += 1;
        }
        i += 1;
    }
    vcover!(len == 5 && first == Some(4));
    vcover!(len == 5 && first.is_none());
    match first {
        Some(i) => {
            assert!(got == Some(P(items[i])), "C16 filtrate returns the first kept item");
            assert!(filter.input.pos == i + 1, "C16 exactly the discarded items before it are consumed");
        },
        None => {
            assert!(got.is_none(), "C16 nothing kept => None");
            assert!(filter.input.pos == len as usize);
        },
    }
    assert!(filter.input.cancels == trees, "C13 one cancellation per tree discard");
}

//@ob C13.filter.canary
//@ props: C13
//@ kind: canary
//@ fns: -
//@ pre: none
//@ post: must FAIL
fn ob_c13_filter_canary(r0: u8) {
    vassume!(r0 <= 2);
    let _ = mk_sep(r0, 0).filter_map_node(|x| x);
    assert!(r0 != 1, "canary");
}
