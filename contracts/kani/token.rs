// Contracts for src/token/mod.rs leaves, src/token/variance/invariant/{mod,term}.rs (C10 component
// counting, C09 leaf predicates, C11 leaf text variance, C12 rooting, C17 unroot, C19 ownership).
// Injected as a child module of `token` (needs private fields of Literal / Class / Repetition).
//
// Ground truth for C10 (DESIGN §4, representation-free): a rule-respecting sequence of leaves of
// class text / separator / tree wildcard, where the i-th tree wildcard matches k_i complete
// components, matches canonical paths with `#maximal text runs + sum k_i` components.
use super::*;
use crate::token::variance::invariant::{Finalize, SeparatedTerm, Termination};
// re-exported for units outside `token` (the `variance` module is private to `token`)
pub(crate) use crate::token::variance::natural::verif_kani_natural as vnat;
use vnat::{mem, mem_nr};
use crate::token::variance::{self, TokenVariance, Variance};
use crate::verif_prelude::*;

type TV = TokenVariance<Depth>;
type ST = SeparatedTerm<TV>;

// leaf kinds, enumerated completely: 0 literal, 1 `?`, 2 `*`, 3 `$`, 4 class, 5 separator,
// 6 tree wildcard, 7 rooted tree wildcard
const KINDS: u8 = 8;
fn leaf(k: u8) -> LeafKind<'static> {
    match k {
        0 => LeafKind::Literal(Literal { text: Cow::Borrowed("a"), is_case_insensitive: false }),
        1 => LeafKind::Wildcard(Wildcard::One),
        2 => LeafKind::Wildcard(Wildcard::ZeroOrMore(Evaluation::Eager)),
        3 => LeafKind::Wildcard(Wildcard::ZeroOrMore(Evaluation::Lazy)),
        4 => LeafKind::Class(Class { is_negated: false, archetypes: Vec::new() }),
        5 => LeafKind::Separator(Separator),
        6 => LeafKind::Wildcard(Wildcard::Tree { has_root: false }),
        _ => LeafKind::Wildcard(Wildcard::Tree { has_root: true }),
    }
}
// class of a leaf for the ground truth: 0 text, 1 separator, 2 tree wildcard
fn class_of(k: u8) -> u8 {
    match k {
        0..=4 => 0,
        5 => 1,
        _ => 2,
    }
}
// the REAL depth term of each leaf kind, unwrapped to its SeparatedTerm inside each arm (values of
// type TreeTerm must never be merged symbolically: the Disjunctive variant holds a HashSet)
fn real_leaf_term(k: u8) -> ST {
    fn unwrap_st(t: InvariantTerm<Depth>) -> ST {
        match t {
            Composition::Conjunctive(s) => s,
            Composition::Disjunctive(_) => panic!("leaf depth term is not conjunctive"),
        }
    }
    match k {
        0 => unwrap_st(variance::term::<Depth>(&leaf(0))),
        1 => unwrap_st(variance::term::<Depth>(&leaf(1))),
        2 => unwrap_st(variance::term::<Depth>(&leaf(2))),
        3 => unwrap_st(variance::term::<Depth>(&leaf(3))),
        4 => unwrap_st(variance::term::<Depth>(&leaf(4))),
        5 => unwrap_st(variance::term::<Depth>(&leaf(5))),
        6 => unwrap_st(variance::term::<Depth>(&leaf(6))),
        _ => unwrap_st(variance::term::<Depth>(&leaf(7))),
    }
}

const KMAX: usize = 1usize << 20;

// Ground truth of a leaf sequence; None if the sequence violates the boundary-adjacency rule (T6).
fn ground_truth<const N: usize>(ks: &[u8; N], ms: &[usize; N]) -> Option<u128> {
    let mut expected: u128 = 0;
    let mut prev: u8 = 9;
    let mut i = 0;
    while i < N {
        if ks[i] >= KINDS {
            return None;
        }
        let c = class_of(ks[i]);
        // no two component boundaries (separator / tree wildcard) are adjacent
        if prev != 9 && prev != 0 && c != 0 {
            return None;
        }
        // a rooted tree wildcard only occurs first
        if ks[i] == 7 && i != 0 {
            return None;
        }
        if c == 0 && prev != 0 {
            expected += 1;
        }
        if c == 2 {
            if ms[i] > KMAX {
                return None;
            }
            expected += ms[i] as u128;
        }
        prev = c;
        i += 1;
    }
    // canonical paths have no trailing separator (unless the path is the root itself)
    if N > 1 && prev == 1 {
        return None;
    }
    Some(expected)
}

// Region of the known finding C10.bracket-before-tree at one conjunction node L x R of a bracketing,
// L = ks[l_lo..=l_hi], R = ks[r_lo..=r_hi]: R is a bracket (an alternation branch or repetition body)
// of >= 2 leaves that begins with text and ends with a tree wildcard -- its leading text run is
// finalised on its own (+1 component) -- while L either ends in text (the run continues a component
// of L: `**/a{b/**}`) or is a separator-closed prefix that begins with the root separator (`/{a/**}`,
// `/x/{y/**}`).
fn bad_node<const N: usize>(ks: &[u8; N], l_lo: usize, l_hi: usize, r_lo: usize, r_hi: usize) -> bool {
    r_hi > r_lo
        && class_of(ks[r_hi]) == 2
        && class_of(ks[r_lo]) == 0
        && (class_of(ks[l_hi]) == 0 || (l_lo == 0 && class_of(ks[0]) == 1 && class_of(ks[l_hi]) == 1))
}

// adjacency rule only (a trailing separator is allowed): used where no path depth is involved
fn ground_truth_any_end<const N: usize>(ks: &[u8; N], _ms: &[usize; N]) -> bool {
    let mut prev: u8 = 9;
    let mut i = 0;
    while i < N {
        if ks[i] >= KINDS || (ks[i] == 7 && i != 0) {
            return false;
        }
        let c = class_of(ks[i]);
        if prev != 9 && prev != 0 && c != 0 {
            return false;
        }
        prev = c;
        i += 1;
    }
    true
}

fn cj(a: ST, b: ST) -> ST {
    ops::conjunction(a, b)
}

//@ob C10.leaf.depth
//@ props: C10
//@ kind: complete
//@ fns: src/token/mod.rs::Separator::term<Depth> src/token/mod.rs::Wildcard::term<Depth> src/token/mod.rs::Literal::term<Depth> src/token/mod.rs::Class::term<Depth> src/token/mod.rs::LeafKind::term src/token/variance/invariant/mod.rs::SeparatedTerm::finalize
//@ pre: any leaf kind (all eight enumerated), any multiplicity k <= 2^20 for a tree wildcard
//@ post: the real depth term of the leaf is conjunctive and, finalised alone, contains the ground truth of that leaf: separator alone = the root = 0 components, text = 1, tree wildcard = k
fn ob_c10_leaf_depth(k: u8, m: usize) {
    vassume!(k < KINDS && m <= KMAX);
    let v = real_leaf_term(k).finalize();
    let expected: u128 = match class_of(k) {
        0 => 1,
        1 => 0,
        _ => m as u128,
    };
    vcover!(k == 5);
    vcover!(k == 7 && m == 3);
    assert!(mem(&v, expected), "C10 depth of a single leaf");
}

//@ob C10.seq.len2
//@ props: C10
//@ kind: bounded(leaf sequences of length 2; every leaf kind, every tree-wildcard multiplicity <= 2^20 symbolic)
//@ unwind: 4
//@ fns: src/token/variance/invariant/term.rs::SeparatedTerm::conjunction src/token/variance/invariant/term.rs::Termination::conjunction src/token/variance/invariant/mod.rs::SeparatedTerm::finalize src/token/variance/mod.rs::TokenVariance::conjunction
//@ pre: rule-respecting sequence of 2 leaves (no adjacent boundaries), multiplicities k_i
//@ post: #text runs + sum k_i is in the finalised conjunction of the real leaf terms
fn ob_c10_seq_len2(ks: [u8; 2], ms: [usize; 2]) {
    let gt = ground_truth(&ks, &ms);
    vassume!(gt.is_some());
    let t = [real_leaf_term(ks[0]), real_leaf_term(ks[1])];
    vcover!(ks[0] == 5 && ks[1] == 0);
    vcover!(ks[0] == 0 && ks[1] == 6 && ms[1] == 2);
    let v = cj(t[0], t[1]).finalize();
    assert!(mem(&v, gt.unwrap()), "C10 component count of a leaf sequence");
}

fn seq3(ks: [u8; 3], ms: [usize; 3], right: bool) {
    let gt = ground_truth(&ks, &ms);
    vassume!(gt.is_some());
    let t = [real_leaf_term(ks[0]), real_leaf_term(ks[1]), real_leaf_term(ks[2])];
    vcover!(ks[0] == 0 && ks[1] == 6 && ks[2] == 0);
    vcover!(ks[0] == 0 && ks[1] == 5 && ks[2] == 2);
    let v = if right { cj(t[0], cj(t[1], t[2])) } else { cj(cj(t[0], t[1]), t[2]) }.finalize();
    assert!(mem(&v, gt.unwrap()), "C10 component count of a leaf sequence");
}

//@ob C10.seq.len3.left
//@ props: C10
//@ kind: bounded(leaf sequences of length 3, bracketing ((0 1) 2); every leaf kind, multiplicities <= 2^20 symbolic)
//@ unwind: 5
//@ fns: src/token/variance/invariant/term.rs::SeparatedTerm::conjunction src/token/variance/invariant/term.rs::Termination::conjunction src/token/variance/invariant/mod.rs::SeparatedTerm::finalize
//@ pre: rule-respecting sequence of 3 leaves
//@ post: #text runs + sum k_i is in the finalised conjunction (left-nested = a flat concatenation)
fn ob_c10_seq_len3_left(ks: [u8; 3], ms: [usize; 3]) {
    seq3(ks, ms, false)
}

//@ob C10.seq.len3.right
//@ props: C10
//@ kind: bounded(leaf sequences of length 3, bracketing (0 (1 2)); every leaf kind, multiplicities <= 2^20 symbolic)
//@ unwind: 5
//@ fns: src/token/variance/invariant/term.rs::SeparatedTerm::conjunction src/token/variance/invariant/term.rs::Termination::conjunction src/token/variance/invariant/mod.rs::SeparatedTerm::finalize
//@ pre: rule-respecting sequence of 3 leaves; the bracket (1 2) is what an alternation branch or repetition body is to the fold
//@ post: #text runs + sum k_i is in the finalised conjunction
fn ob_c10_seq_len3_right(ks: [u8; 3], ms: [usize; 3]) {
    seq3(ks, ms, true)
}
fn region_c10_bracket_before_tree_3_right(ks: [u8; 3], _ms: [usize; 3]) -> bool {
    ks[0] < KINDS && ks[1] < KINDS && ks[2] < KINDS && bad_node(&ks, 0, 0, 1, 2)
}

fn seq4(ks: [u8; 4], ms: [usize; 4], shape: u8) {
    let gt = ground_truth(&ks, &ms);
    vassume!(gt.is_some());
    let t = [real_leaf_term(ks[0]), real_leaf_term(ks[1]), real_leaf_term(ks[2]), real_leaf_term(ks[3])];
    vcover!(ks[0] == 0 && ks[1] == 6 && ks[2] == 0 && ks[3] == 2);
    vcover!(ks[0] == 6 && ks[1] == 2 && ks[2] == 5 && ks[3] == 4);
    let v = match shape {
        0 => cj(cj(cj(t[0], t[1]), t[2]), t[3]),
        1 => cj(t[0], cj(t[1], cj(t[2], t[3]))),
        2 => cj(cj(t[0], t[1]), cj(t[2], t[3])),
        3 => cj(cj(t[0], cj(t[1], t[2])), t[3]),
        _ => cj(t[0], cj(cj(t[1], t[2]), t[3])),
    }
    .finalize();
    assert!(mem(&v, gt.unwrap()), "C10 component count of a leaf sequence");
}
fn in_kinds4(ks: &[u8; 4]) -> bool {
    ks[0] < KINDS && ks[1] < KINDS && ks[2] < KINDS && ks[3] < KINDS
}
fn region_c10_bracket_before_tree_4_right(ks: [u8; 4], _ms: [usize; 4]) -> bool {
    in_kinds4(&ks) && (bad_node(&ks, 0, 0, 1, 3) || bad_node(&ks, 1, 1, 2, 3))
}
fn region_c10_bracket_before_tree_4_balanced(ks: [u8; 4], _ms: [usize; 4]) -> bool {
    in_kinds4(&ks) && bad_node(&ks, 0, 1, 2, 3)
}
fn region_c10_bracket_before_tree_4_inner_right(ks: [u8; 4], _ms: [usize; 4]) -> bool {
    in_kinds4(&ks) && bad_node(&ks, 0, 0, 1, 2)
}
fn region_c10_bracket_before_tree_4_inner_left(ks: [u8; 4], _ms: [usize; 4]) -> bool {
    in_kinds4(&ks) && bad_node(&ks, 0, 0, 1, 3)
}

//@ob C10.seq.len4.left
//@ props: C10
//@ kind: bounded(leaf sequences of length 4, bracketing (((0 1) 2) 3))
//@ unwind: 6
//@ fns: src/token/variance/invariant/term.rs::SeparatedTerm::conjunction src/token/variance/invariant/term.rs::Termination::conjunction src/token/variance/invariant/mod.rs::SeparatedTerm::finalize
//@ pre: rule-respecting sequence of 4 leaves
//@ post: #text runs + sum k_i is in the finalised conjunction
fn ob_c10_seq_len4_left(ks: [u8; 4], ms: [usize; 4]) {
    seq4(ks, ms, 0)
}
//@ob C10.seq.len4.right
//@ props: C10
//@ kind: bounded(leaf sequences of length 4, bracketing (0 (1 (2 3))))
//@ unwind: 6
//@ fns: src/token/variance/invariant/term.rs::SeparatedTerm::conjunction src/token/variance/invariant/term.rs::Termination::conjunction src/token/variance/invariant/mod.rs::SeparatedTerm::finalize
//@ pre: rule-respecting sequence of 4 leaves
//@ post: #text runs + sum k_i is in the finalised conjunction
fn ob_c10_seq_len4_right(ks: [u8; 4], ms: [usize; 4]) {
    seq4(ks, ms, 1)
}
//@ob C10.seq.len4.balanced
//@ props: C10
//@ kind: bounded(leaf sequences of length 4, bracketing ((0 1) (2 3)))
//@ tier: thorough
//@ unwind: 6
//@ fns: src/token/variance/invariant/term.rs::SeparatedTerm::conjunction
//@ pre: rule-respecting sequence of 4 leaves
//@ post: #text runs + sum k_i is in the finalised conjunction
fn ob_c10_seq_len4_balanced(ks: [u8; 4], ms: [usize; 4]) {
    seq4(ks, ms, 2)
}
//@ob C10.seq.len4.inner_right
//@ props: C10
//@ kind: bounded(leaf sequences of length 4, bracketing ((0 (1 2)) 3))
//@ tier: thorough
//@ unwind: 6
//@ fns: src/token/variance/invariant/term.rs::SeparatedTerm::conjunction
//@ pre: rule-respecting sequence of 4 leaves
//@ post: #text runs + sum k_i is in the finalised conjunction
fn ob_c10_seq_len4_inner_right(ks: [u8; 4], ms: [usize; 4]) {
    seq4(ks, ms, 3)
}
//@ob C10.seq.len4.inner_left
//@ props: C10
//@ kind: bounded(leaf sequences of length 4, bracketing (0 ((1 2) 3)))
//@ tier: thorough
//@ unwind: 6
//@ fns: src/token/variance/invariant/term.rs::SeparatedTerm::conjunction
//@ pre: rule-respecting sequence of 4 leaves
//@ post: #text runs + sum k_i is in the finalised conjunction
fn ob_c10_seq_len4_inner_left(ks: [u8; 4], ms: [usize; 4]) {
    seq4(ks, ms, 4)
}

// ---------------------------------------------------------------------------------------------
// C10: flat concatenations of ANY length, by induction over the real SeparatedTerm conjunction.
//
// `rep` relates the term (t, v) the real code has computed for a non-empty leaf sequence to ghost
// facts about that sequence: fc = its first leaf is a boundary (separator or tree wildcard),
// lc = class of its last leaf (0 text, 1 separator, 2 tree wildcard), c = its true component count
// for the chosen tree-wildcard multiplicities. base: every single leaf satisfies rep; step: rep is
// preserved by the REAL conjunction with the REAL term of any admissible next leaf; final: rep implies
// that the REAL finalize contains c. Concatenation::fold is the left fold of that conjunction (T3),
// so the three obligations together cover every flat concatenation of leaves, of every length.
// ---------------------------------------------------------------------------------------------

const CMAX: usize = 1usize << 40;

// every well-formed depth variance (kinds as in the `natural` unit: 0 Invariant, 1 Unbounded, 2 Lower,
// 3 Upper, 4 Both), bounds up to 2^40
fn flat_valid(vk: u8, n: usize, e: usize) -> bool {
    vk <= 4 && vnat::valid_tv(vk, n, e) && n <= CMAX && e <= CMAX
}
fn flat_tv(vk: u8, n: usize, e: usize) -> TV {
    vnat::mk_tv(vk, n, e)
}
// what finalize will still add to the count (Open: one component is pending) or what a trailing
// separator still owes (Closed by a separator)
fn pending(t: Termination, lc: u8) -> i128 {
    match t {
        Termination::Open => -1,
        Termination::Closed if lc == 1 => 1,
        _ => 0,
    }
}
// a fact about SEQUENCES (ghost variables only, nothing about the code): one that begins or ends with
// text has at least one component. Assumed wherever the ghost facts of a real sequence are introduced;
// not part of `rep`, so that phantom leaves (absent optional repetitions, count 0) fit the induction.
fn ghost_ok(fc: bool, lc: u8, c: u128) -> bool {
    !((lc == 0 || !fc) && c == 0)
}
fn rep(t: Termination, v: &TV, fc: bool, lc: u8, c: u128) -> bool {
    if matches!(t, Termination::Coalescent) {
        // only a lone tree wildcard
        return fc && lc == 2 && v.is_unbounded();
    }
    let left_open = matches!(t, Termination::Open | Termination::Last);
    let right_open = matches!(t, Termination::Open | Termination::First);
    if left_open == fc || right_open != (lc == 0) {
        return false;
    }
    // facts about real sequences: one that begins or ends with text has a component; one that ends in
    // a tree wildcard has no upper bound
    if lc == 2 && v.has_upper_bound() {
        return false;
    }
    // the count, corrected by what is pending, is a depth the variance denotes
    let x = c as i128 + pending(t, lc);
    x >= 0 && mem(v, x as u128)
}

//@ob C10.flat.base
//@ props: C10
//@ kind: complete
//@ fns: src/token/mod.rs::LeafKind::term src/token/mod.rs::Separator::term<Depth> src/token/mod.rs::Wildcard::term<Depth> src/token/mod.rs::Literal::term<Depth> src/token/mod.rs::Class::term<Depth>
//@ pre: any single leaf (eight kinds), any multiplicity m <= 2^20 of a tree wildcard
//@ post: the REAL leaf term satisfies rep with fc = the leaf is a boundary, lc = its class, c = its own count (text 1, separator 0, tree wildcard m)
fn ob_c10_flat_base(k: u8, m: usize) {
    vassume!(k < KINDS && m <= KMAX);
    let SeparatedTerm(t, v) = real_leaf_term(k);
    let class = class_of(k);
    let c: u128 = match class {
        0 => 1,
        1 => 0,
        _ => m as u128,
    };
    vcover!(k == 5);
    vcover!(k == 6 && m == 2);
    assert!(rep(t, &v, class != 0, class, c), "C10 every leaf term satisfies the representation relation");
}

//@ob C10.flat.step
//@ props: C10
//@ kind: complete
//@ fns: src/token/variance/invariant/term.rs::SeparatedTerm::conjunction src/token/variance/invariant/term.rs::Termination::conjunction src/token/variance/invariant/mod.rs::SeparatedTerm::finalize src/token/variance/mod.rs::TokenVariance::conjunction
//@ pre: ANY term (t, v) with ghost (fc, lc, c) satisfying rep (counts up to 2^40), any next leaf that may follow a leaf of class lc (no two boundaries adjacent, T6; a rooted tree wildcard only comes first), any multiplicity m <= 2^20
//@ post: the REAL conjunction of (t, v) with the REAL term of the next leaf satisfies rep for the extended sequence: fc unchanged, lc = class of the new leaf, c + [a new text run starts] + [m for a tree wildcard] -- the inductive step for flat concatenations of any length
fn ob_c10_flat_step(t: u8, vk: u8, n: usize, e: usize, fc: bool, lc: u8, c: usize, k: u8, m: usize) {
    vassume!(t <= 4 && flat_valid(vk, n, e) && lc <= 2 && c <= CMAX + CMAX && k < KINDS - 1 && m <= KMAX);
    let (termination, v) = (mk_termination(t), flat_tv(vk, n, e));
    vassume!(rep(termination, &v, fc, lc, c as u128));
    let class = class_of(k);
    vassume!(lc == 0 || class == 0); // no two boundaries adjacent
    vcover!(t == 4 && class == 0);
    vcover!(vk == 2 && t == 3 && lc == 2 && class == 0);
    vcover!(vk == 0 && t == 1 && class == 2);
    vcover!(vk == 2 && t == 0 && class == 1);
    let SeparatedTerm(t2, v2) = cj(SeparatedTerm(termination, v), real_leaf_term(k));
    let c2 = c as u128 + if class == 0 && lc != 0 { 1 } else { 0 } + if class == 2 { m as u128 } else { 0 };
    assert!(rep(t2, &v2, fc, class, c2), "C10 the representation relation is preserved by appending a leaf");
}

//@ob C10.flat.final
//@ props: C10
//@ kind: complete
//@ fns: src/token/variance/invariant/mod.rs::SeparatedTerm::finalize
//@ pre: ANY term with ghost facts satisfying rep for a sequence that is a canonical path expression (it does not end in a separator, unless it is the lone root separator)
//@ post: the REAL finalize contains the true component count c -- with base and step: the reported depth of every flat concatenation of leaves, of any length, contains the depth of every match
fn ob_c10_flat_final(t: u8, vk: u8, n: usize, e: usize, fc: bool, lc: u8, c: usize) {
    vassume!(t <= 4 && flat_valid(vk, n, e) && lc <= 2 && c <= CMAX + CMAX);
    let (termination, v) = (mk_termination(t), flat_tv(vk, n, e));
    vassume!(rep(termination, &v, fc, lc, c as u128));
    // no trailing separator, except the root alone: (Closed, Invariant(1)) with c == 0
    vassume!(lc != 1 || (t == 3 && vk == 0 && n == 1 && c == 0));
    vcover!(t == 3 && vk == 2);
    vcover!(t == 0 && vk == 2);
    vcover!(t == 3 && vk == 0 && n == 1);
    let out = SeparatedTerm(termination, v).finalize();
    assert!(mem(&out, c as u128), "C10 the finalised depth of a flat concatenation contains its component count");
}

// region of the known finding C10.bracket-before-tree in ghost terms (see DESIGN 10.3)
fn region_join(t1: u8, _vk1: u8, lc1: u8, t2: u8, vk2: u8, f2: u8, _lc2: u8) -> bool {
    // R is a text-first bracket that was closed on the right by coalescing with a tree wildcard
    // (Last, variant): its first text run already carries its +1 ...
    let r_bracket = f2 == 0 && vk2 != 0 && t2 == 2;
    // ... and L cannot absorb it: L ends in text but is closed on the left (First)
    let l_first_text = lc1 == 0 && t1 == 1;
    // ... or L is closed on both sides by separators (`/x/`): the separator's debt cannot be repaid by
    // a variant term
    let l_closed_sep = lc1 == 1 && t1 == 3;
    r_bracket && (l_first_text || l_closed_sep)
}

// the join, for a fixed left termination
fn flat_join(t1: u8, vk1: u8, n1: usize, e1: usize, fc1: bool, lc1: u8, c1: usize, t2: u8, vk2: u8, n2: usize, e2: usize, f2: u8, lc2: u8, c2: usize) {
    vassume!(t1 <= 4 && flat_valid(vk1, n1, e1) && lc1 <= 2 && c1 <= CMAX + CMAX);
    vassume!(t2 <= 4 && flat_valid(vk2, n2, e2) && f2 <= 2 && lc2 <= 2 && c2 <= CMAX + CMAX);
    let (ta, va) = (mk_termination(t1), flat_tv(vk1, n1, e1));
    let (tb, vb) = (mk_termination(t2), flat_tv(vk2, n2, e2));
    vassume!(rep(ta, &va, fc1, lc1, c1 as u128) && rep(tb, &vb, f2 != 0, lc2, c2 as u128));
    vassume!(lc1 == 0 || f2 == 0); // no two boundaries adjacent at the seam
    vassume!(t2 != 4 || f2 == 2); // a lone tree wildcard begins with a tree wildcard
    vcover!(t2 == 0);
    vcover!(t2 == 2);
    let SeparatedTerm(t, v) = cj(SeparatedTerm(ta, va), SeparatedTerm(tb, vb));
    let shared = lc1 == 0 && f2 == 0;
    vassume!(!shared || c1 as u128 + c2 as u128 >= 1);
    let c = c1 as u128 + c2 as u128 - if shared { 1 } else { 0 };
    assert!(rep(t, &v, fc1, lc2, c), "C10 the representation relation is preserved by joining two terms");
}

//@ob C10.flat.join.t0.a
//@ props: C10
//@ kind: complete
//@ fns: src/token/variance/invariant/term.rs::SeparatedTerm::conjunction src/token/variance/invariant/term.rs::Termination::conjunction src/token/variance/invariant/mod.rs::SeparatedTerm::finalize src/token/variance/mod.rs::TokenVariance::conjunction
//@ pre: ANY two terms L, R (every variance shape, bounds up to 2^40) with ghost facts satisfying rep, L with termination Open; no two boundaries adjacent at the seam
//@ post: the REAL conjunction L x R satisfies rep for the joined sequence (count = cL + cR, minus one when a text run continues across the seam): brackets of any size and nesting keep the relation (split by the left termination and the shape of R's variance only to parallelise the solver; R invariant, unbounded or lower-bounded)
fn ob_c10_flat_join_t0_a(vk1: u8, n1: usize, e1: usize, fc1: bool, lc1: u8, c1: usize, t2: u8, vk2: u8, n2: usize, e2: usize, f2: u8, lc2: u8, c2: usize) {
    vassume!(vk2 <= 2);
    flat_join(0, vk1, n1, e1, fc1, lc1, c1, t2, vk2, n2, e2, f2, lc2, c2)
}
//@ob C10.flat.join.t0.b
//@ props: C10
//@ kind: complete
//@ fns: src/token/variance/invariant/term.rs::SeparatedTerm::conjunction src/token/variance/invariant/term.rs::Termination::conjunction src/token/variance/invariant/mod.rs::SeparatedTerm::finalize src/token/variance/mod.rs::TokenVariance::conjunction
//@ pre: ANY two terms L, R (every variance shape, bounds up to 2^40) with ghost facts satisfying rep, L with termination Open; no two boundaries adjacent at the seam
//@ post: the REAL conjunction L x R satisfies rep for the joined sequence (count = cL + cR, minus one when a text run continues across the seam): brackets of any size and nesting keep the relation (split by the left termination and the shape of R's variance only to parallelise the solver; R upper-bounded or two-sided)
fn ob_c10_flat_join_t0_b(vk1: u8, n1: usize, e1: usize, fc1: bool, lc1: u8, c1: usize, t2: u8, vk2: u8, n2: usize, e2: usize, f2: u8, lc2: u8, c2: usize) {
    vassume!(vk2 >= 3);
    flat_join(0, vk1, n1, e1, fc1, lc1, c1, t2, vk2, n2, e2, f2, lc2, c2)
}
//@ob C10.flat.join.t1
//@ props: C10
//@ kind: complete
//@ fns: src/token/variance/invariant/term.rs::SeparatedTerm::conjunction src/token/variance/invariant/term.rs::Termination::conjunction src/token/variance/invariant/mod.rs::SeparatedTerm::finalize src/token/variance/mod.rs::TokenVariance::conjunction
//@ pre: ANY two terms L, R (every variance shape, bounds up to 2^40) with ghost facts satisfying rep, L with termination First; no two boundaries adjacent at the seam
//@ post: the REAL conjunction L x R satisfies rep for the joined sequence (count = cL + cR, minus one when a text run continues across the seam): brackets of any size and nesting keep the relation (split by the left termination only to parallelise the solver)
fn ob_c10_flat_join_t1(vk1: u8, n1: usize, e1: usize, fc1: bool, lc1: u8, c1: usize, t2: u8, vk2: u8, n2: usize, e2: usize, f2: u8, lc2: u8, c2: usize) {
    flat_join(1, vk1, n1, e1, fc1, lc1, c1, t2, vk2, n2, e2, f2, lc2, c2)
}
//@ob C10.flat.join.t2
//@ props: C10
//@ kind: complete
//@ fns: src/token/variance/invariant/term.rs::SeparatedTerm::conjunction src/token/variance/invariant/term.rs::Termination::conjunction src/token/variance/invariant/mod.rs::SeparatedTerm::finalize src/token/variance/mod.rs::TokenVariance::conjunction
//@ pre: ANY two terms L, R (every variance shape, bounds up to 2^40) with ghost facts satisfying rep, L with termination Last; no two boundaries adjacent at the seam
//@ post: the REAL conjunction L x R satisfies rep for the joined sequence (count = cL + cR, minus one when a text run continues across the seam): brackets of any size and nesting keep the relation (split by the left termination only to parallelise the solver)
fn ob_c10_flat_join_t2(vk1: u8, n1: usize, e1: usize, fc1: bool, lc1: u8, c1: usize, t2: u8, vk2: u8, n2: usize, e2: usize, f2: u8, lc2: u8, c2: usize) {
    flat_join(2, vk1, n1, e1, fc1, lc1, c1, t2, vk2, n2, e2, f2, lc2, c2)
}
//@ob C10.flat.join.t3
//@ props: C10
//@ kind: complete
//@ fns: src/token/variance/invariant/term.rs::SeparatedTerm::conjunction src/token/variance/invariant/term.rs::Termination::conjunction src/token/variance/invariant/mod.rs::SeparatedTerm::finalize src/token/variance/mod.rs::TokenVariance::conjunction
//@ pre: ANY two terms L, R (every variance shape, bounds up to 2^40) with ghost facts satisfying rep, L with termination Closed; no two boundaries adjacent at the seam
//@ post: the REAL conjunction L x R satisfies rep for the joined sequence (count = cL + cR, minus one when a text run continues across the seam): brackets of any size and nesting keep the relation (split by the left termination only to parallelise the solver)
fn ob_c10_flat_join_t3(vk1: u8, n1: usize, e1: usize, fc1: bool, lc1: u8, c1: usize, t2: u8, vk2: u8, n2: usize, e2: usize, f2: u8, lc2: u8, c2: usize) {
    flat_join(3, vk1, n1, e1, fc1, lc1, c1, t2, vk2, n2, e2, f2, lc2, c2)
}
//@ob C10.flat.join.t4
//@ props: C10
//@ kind: complete
//@ fns: src/token/variance/invariant/term.rs::SeparatedTerm::conjunction src/token/variance/invariant/term.rs::Termination::conjunction src/token/variance/invariant/mod.rs::SeparatedTerm::finalize src/token/variance/mod.rs::TokenVariance::conjunction
//@ pre: ANY two terms L, R (every variance shape, bounds up to 2^40) with ghost facts satisfying rep, L with termination Coalescent; no two boundaries adjacent at the seam
//@ post: the REAL conjunction L x R satisfies rep for the joined sequence (count = cL + cR, minus one when a text run continues across the seam): brackets of any size and nesting keep the relation (split by the left termination only to parallelise the solver)
fn ob_c10_flat_join_t4(vk1: u8, n1: usize, e1: usize, fc1: bool, lc1: u8, c1: usize, t2: u8, vk2: u8, n2: usize, e2: usize, f2: u8, lc2: u8, c2: usize) {
    flat_join(4, vk1, n1, e1, fc1, lc1, c1, t2, vk2, n2, e2, f2, lc2, c2)
}
fn region_c10_flat_join_t1(vk1: u8, _n1: usize, _e1: usize, _fc1: bool, lc1: u8, _c1: usize, t2: u8, vk2: u8, _n2: usize, _e2: usize, f2: u8, lc2: u8, _c2: usize) -> bool {
    region_join(1, vk1, lc1, t2, vk2, f2, lc2)
}
fn region_c10_flat_join_t3(vk1: u8, _n1: usize, _e1: usize, _fc1: bool, lc1: u8, _c1: usize, t2: u8, vk2: u8, _n2: usize, _e2: usize, f2: u8, lc2: u8, _c2: usize) -> bool {
    region_join(3, vk1, lc1, t2, vk2, f2, lc2)
}

// n copies of a body under repetition
fn flat_product(t: u8, vk: u8, a: usize, e: usize, fc: bool, lc: u8, lo: u8, hi: u8, n: u8, c1: usize, c2: usize, c3: usize) {
    vassume!(t <= 3 && flat_valid(vk, a, e) && lc <= 2 && lo <= 3 && hi <= 4 && hi >= 1 && (hi == 4 || lo <= hi) && n >= 1 && n <= 3);
    vassume!(c1 <= CMAX && c2 <= CMAX && c3 <= CMAX);
    let (termination, v) = (mk_termination(t), flat_tv(vk, a, e));
    vassume!(rep(termination, &v, fc, lc, c1 as u128));
    vassume!(n < 2 || rep(termination, &v, fc, lc, c2 as u128));
    vassume!(n < 3 || rep(termination, &v, fc, lc, c3 as u128));
    vassume!(n == 1 || lc == 0 || !fc); // copies may follow each other
    let upper = if hi == 4 { None } else { Some(hi as usize) };
    vassume!(n >= lo && (hi == 4 || n <= hi));
    let rep_branch = mk_repetition(lo as usize, upper);
    vcover!(vk == 4);
    vcover!(t == 0);
    let out = variance::finalize::<Depth>(&rep_branch, Composition::Conjunctive(SeparatedTerm(termination, v)));
    core::mem::forget(rep_branch);
    let shared: u128 = if lc == 0 && !fc { 1 } else { 0 };
    let total = match n {
        1 => c1 as u128,
        2 => c1 as u128 + c2 as u128 - shared,
        _ => c1 as u128 + c2 as u128 + c3 as u128 - shared - shared,
    };
    match out {
        Composition::Conjunctive(SeparatedTerm(t2, v2)) => {
            assert!(rep(t2, &v2, fc, lc, total), "C10 the representation relation is preserved by repetition");
        },
        Composition::Disjunctive(d) => {
            core::mem::forget(d);
            assert!(false, "C10 product of a conjunctive term is conjunctive")
        },
    }
}

//@ob C10.flat.product.n1
//@ props: C10
//@ kind: bounded(repetition bounds enumerated: lower <= 3, upper <= 3 or open; exactly 1 copy of the body; the body term and the per-copy counts symbolic)
//@ fns: src/token/variance/invariant/term.rs::SeparatedTerm::product src/token/mod.rs::Repetition::finalize<Depth> src/token/variance/mod.rs::TokenVariance::product
//@ pre: a body term (t, v) that satisfies rep for each of n copies (same edges, each copy with its own component count c_i: tree wildcards may match differently in every copy), copies may follow each other (no two boundaries adjacent), n admitted by the repetition range
//@ post: the REAL Repetition::finalize (SeparatedTerm product) satisfies rep for the repeated sequence: same edges, count = sum of the c_i minus one for every seam where a text run continues -- so a repetition can take part in the induction like any other bracket
fn ob_c10_flat_product_n1(t: u8, vk: u8, a: usize, e: usize, fc: bool, lc: u8, lo: u8, hi: u8, c1: usize, c2: usize, c3: usize) {
    flat_product(t, vk, a, e, fc, lc, lo, hi, 1, c1, c2, c3)
}

//@ob C10.flat.product.n2
//@ props: C10
//@ kind: bounded(repetition bounds enumerated: lower <= 3, upper <= 3 or open; exactly 2 copies of the body; the body term and the per-copy counts symbolic)
//@ fns: src/token/variance/invariant/term.rs::SeparatedTerm::product src/token/mod.rs::Repetition::finalize<Depth> src/token/variance/mod.rs::TokenVariance::product
//@ pre: a body term (t, v) that satisfies rep for each of n copies (same edges, each copy with its own component count c_i: tree wildcards may match differently in every copy), copies may follow each other (no two boundaries adjacent), n admitted by the repetition range
//@ post: the REAL Repetition::finalize (SeparatedTerm product) satisfies rep for the repeated sequence: same edges, count = sum of the c_i minus one for every seam where a text run continues -- so a repetition can take part in the induction like any other bracket
fn ob_c10_flat_product_n2(t: u8, vk: u8, a: usize, e: usize, fc: bool, lc: u8, lo: u8, hi: u8, c1: usize, c2: usize, c3: usize) {
    flat_product(t, vk, a, e, fc, lc, lo, hi, 2, c1, c2, c3)
}

//@ob C10.flat.product.n3
//@ props: C10
//@ kind: bounded(repetition bounds enumerated: lower <= 3, upper <= 3 or open; exactly 3 copies of the body; the body term and the per-copy counts symbolic)
//@ tier: thorough
//@ fns: src/token/variance/invariant/term.rs::SeparatedTerm::product src/token/mod.rs::Repetition::finalize<Depth> src/token/variance/mod.rs::TokenVariance::product
//@ pre: a body term (t, v) that satisfies rep for each of n copies (same edges, each copy with its own component count c_i: tree wildcards may match differently in every copy), copies may follow each other (no two boundaries adjacent), n admitted by the repetition range
//@ post: the REAL Repetition::finalize (SeparatedTerm product) satisfies rep for the repeated sequence: same edges, count = sum of the c_i minus one for every seam where a text run continues -- so a repetition can take part in the induction like any other bracket
fn ob_c10_flat_product_n3(t: u8, vk: u8, a: usize, e: usize, fc: bool, lc: u8, lo: u8, hi: u8, c1: usize, c2: usize, c3: usize) {
    flat_product(t, vk, a, e, fc, lc, lo, hi, 3, c1, c2, c3)
}

//@ob C10.flat.absent.phantom
//@ props: C10
//@ kind: bounded(repetition upper bound enumerated <= 3 or open; the body term symbolic, every variance shape)
//@ fns: src/token/variance/invariant/term.rs::SeparatedTerm::product src/token/mod.rs::Repetition::finalize<Depth> src/token/variance/mod.rs::TokenVariance::product
//@ pre: an optional repetition `<w:0,h>` whose body term satisfies rep with edges (fw, lcw) and is not closed by boundaries on both sides
//@ post: the REAL product term ALSO satisfies rep for a phantom sequence with the body's edges and count 1 if the body begins and ends with text (an empty text run, which merges with neighbouring text) and 0 otherwise -- so the ABSENT repetition takes part in the induction (C10.flat.join) like a leaf; with real neighbours the phantom count equals the count of the path without the body whenever a phantom text run touches real text on one side (the other cases are non-canonical paths or the edge finding C10.optional-edge-text, see C10.flat.absent.first / last)
fn ob_c10_flat_absent_phantom(t: u8, vk: u8, a: usize, e: usize, fw: u8, lcw: u8, cw: usize, hi: u8) {
    vassume!(t <= 2 && flat_valid(vk, a, e) && fw <= 2 && lcw <= 2 && cw <= CMAX && hi >= 1 && hi <= 4);
    let w = SeparatedTerm(mk_termination(t), flat_tv(vk, a, e));
    vassume!(rep(w.0, &w.1, fw != 0, lcw, cw as u128) && ghost_ok(fw != 0, lcw, cw as u128));
    let upper = match hi {
        1 => Some(1),
        2 => Some(2),
        3 => Some(3),
        _ => None,
    };
    let branch = mk_repetition(0, upper);
    vcover!(t == 0 && vk == 4);
    vcover!(t == 2 && lcw == 2);
    vcover!(t == 1);
    let p = match variance::finalize::<Depth>(&branch, Composition::Conjunctive(w)) {
        Composition::Conjunctive(p) => p,
        Composition::Disjunctive(d) => {
            core::mem::forget(d);
            panic!("C10 product of a conjunctive term is conjunctive")
        },
    };
    core::mem::forget(branch);
    let phantom: u128 = if t == 0 { 1 } else { 0 };
    assert!(rep(p.0, &p.1, fw != 0, lcw, phantom), "C10 an absent optional repetition is a phantom leaf of the induction");
}

// an optional repetition (lower bound 0) that is ABSENT: the neighbours L and R (either may be missing,
// not both) then form the matched path by themselves. Only the two edge cases are registered: with BOTH
// neighbours symbolic (three terms) Kani gave no verdict in 20 min outside the known region.
fn flat_absent(
    has_l: bool, t1: u8, vk1: u8, n1: usize, e1: usize, fc1: bool, lc1: u8, c1: usize,
    t: u8, vk: u8, a: usize, e: usize, fw: u8, lcw: u8, cw: usize, hi: u8,
    has_r: bool, t2: u8, vk2: u8, n2: usize, e2: usize, f2: u8, lc2: u8, c2: usize,
) {
    vassume!(has_l || has_r);
    vassume!(t1 <= 4 && flat_valid(vk1, n1, e1) && lc1 <= 2 && c1 <= CMAX);
    vassume!(t <= 3 && flat_valid(vk, a, e) && fw <= 2 && lcw <= 2 && cw <= CMAX && hi >= 1 && hi <= 4);
    vassume!(t2 <= 4 && flat_valid(vk2, n2, e2) && f2 <= 2 && lc2 <= 2 && c2 <= CMAX);
    let l = SeparatedTerm(mk_termination(t1), flat_tv(vk1, n1, e1));
    let w = SeparatedTerm(mk_termination(t), flat_tv(vk, a, e));
    let r = SeparatedTerm(mk_termination(t2), flat_tv(vk2, n2, e2));
    vassume!(!has_l || (rep(l.0, &l.1, fc1, lc1, c1 as u128) && ghost_ok(fc1, lc1, c1 as u128)));
    vassume!(rep(w.0, &w.1, fw != 0, lcw, cw as u128) && ghost_ok(fw != 0, lcw, cw as u128));
    vassume!(!has_r || (rep(r.0, &r.1, f2 != 0, lc2, c2 as u128) && ghost_ok(f2 != 0, lc2, c2 as u128) && (t2 != 4 || f2 == 2)));
    // the rule checker admits the expression with the body present (T6): no two boundaries adjacent
    vassume!(!has_l || lc1 == 0 || fw == 0);
    vassume!(!has_r || lcw == 0 || f2 == 0);
    // the matched path without the body is canonical: no two boundaries adjacent, no trailing separator
    vassume!(!(has_l && has_r) || lc1 == 0 || f2 == 0);
    // (a tree wildcard that is followed by something in the expression matches `/` or `/x/.../`: without
    // the body the path would end in its trailing separator)
    vassume!(if has_r { lc2 != 1 } else { lc1 == 0 });
    let upper = match hi {
        1 => Some(1),
        2 => Some(2),
        3 => Some(3),
        _ => None,
    };
    let branch = mk_repetition(0, upper);
    let p = match variance::finalize::<Depth>(&branch, Composition::Conjunctive(w)) {
        Composition::Conjunctive(p) => p,
        Composition::Disjunctive(d) => {
            core::mem::forget(d);
            panic!("C10 product of a conjunctive term is conjunctive")
        },
    };
    core::mem::forget(branch);
    let term = match (has_l, has_r) {
        (true, true) => cj(cj(l, p), r),
        (true, false) => cj(l, p),
        _ => cj(p, r),
    };
    let count: u128 = match (has_l, has_r) {
        (true, true) => c1 as u128 + c2 as u128 - if lc1 == 0 && f2 == 0 { 1 } else { 0 },
        (true, false) => c1 as u128,
        _ => c2 as u128,
    };
    vcover!(hi == 4);
    vcover!(hi == 1 && vk == 0);
    assert!(mem(&term.finalize(), count), "C10 the depth reported around an optional repetition contains the depth of the match without it");
}

//@ob C10.flat.absent.last
//@ props: C10
//@ kind: bounded(repetition upper bound enumerated <= 3 or open; the terms symbolic, every variance shape, counts up to 2^40)
//@ fns: src/token/variance/invariant/term.rs::SeparatedTerm::product src/token/variance/invariant/term.rs::SeparatedTerm::conjunction src/token/variance/invariant/mod.rs::SeparatedTerm::finalize src/token/variance/mod.rs::TokenVariance::product
//@ pre: an optional repetition `<w:0,h>` at the end, after a left neighbour L, all terms with ghost facts satisfying rep; the expression is admitted with the body present (T6) and the path matched WITHOUT the body is canonical
//@ post: the finalised REAL term contains the component count of the neighbours alone -- zero repetitions are a match too
fn ob_c10_flat_absent_last(
    t1: u8, vk1: u8, n1: usize, e1: usize, fc1: bool, lc1: u8, c1: usize,
    t: u8, vk: u8, a: usize, e: usize, fw: u8, lcw: u8, cw: usize, hi: u8,
) {
    flat_absent(true, t1, vk1, n1, e1, fc1, lc1, c1, t, vk, a, e, fw, lcw, cw, hi, false, 0, 0, 0, 0, 0, 0, 0)
}
//@ob C10.flat.absent.first
//@ props: C10
//@ kind: bounded(repetition upper bound enumerated <= 3 or open; the terms symbolic, every variance shape, counts up to 2^40)
//@ fns: src/token/variance/invariant/term.rs::SeparatedTerm::product src/token/variance/invariant/term.rs::SeparatedTerm::conjunction src/token/variance/invariant/mod.rs::SeparatedTerm::finalize src/token/variance/mod.rs::TokenVariance::product
//@ pre: an optional repetition `<w:0,h>` at the beginning, before a right neighbour R, all terms with ghost facts satisfying rep; the expression is admitted with the body present (T6) and the path matched WITHOUT the body is canonical
//@ post: the finalised REAL term contains the component count of the neighbours alone -- zero repetitions are a match too
fn ob_c10_flat_absent_first(
    t: u8, vk: u8, a: usize, e: usize, fw: u8, lcw: u8, cw: usize, hi: u8,
    t2: u8, vk2: u8, n2: usize, e2: usize, f2: u8, lc2: u8, c2: usize,
) {
    flat_absent(false, 0, 0, 0, 0, false, 0, 0, t, vk, a, e, fw, lcw, cw, hi, true, t2, vk2, n2, e2, f2, lc2, c2)
}
fn region_c10_flat_absent_first(
    _t: u8, _vk: u8, _a: usize, _e: usize, fw: u8, _lcw: u8, _cw: usize, _hi: u8,
    _t2: u8, _vk2: u8, _n2: usize, _e2: usize, f2: u8, _lc2: u8, _c2: usize,
) -> bool {
    // the path without the body begins with R's boundary (the root separator or a tree wildcard), which
    // the body's text had preceded
    fw == 0 && f2 != 0
}

// ---------------------------------------------------------------------------------------------
// C10: repetition at term level
// ---------------------------------------------------------------------------------------------

fn sep_product(t: u8, k: u8, a: usize, b: usize, lo: u8, hi: u8, x: usize) {
    use vnat::{mk_tv, valid_tv};
    vassume!(t <= 4 && k <= 4 && valid_tv(k, a, b) && lo <= 3 && hi <= 4 && hi >= 1 && (hi == 4 || lo <= hi));
    vassume!(a <= 1usize << 40 && b <= 1usize << 40);
    let termination = mk_termination(t);
    let v: TV = mk_tv(k, a, b);
    let rep = mk_repetition(lo as usize, if hi == 4 { None } else { Some(hi as usize) });
    let term: InvariantTerm<Depth> = Composition::Conjunctive(SeparatedTerm(termination, v));
    vcover!(lo == 2 && hi == 3);
    let out = variance::finalize::<Depth>(&rep, term);
    core::mem::forget(rep);
    let expected = ops::product(v, NaturalRange::from_closed_and_open(lo as usize, if hi == 4 { None } else { Some(hi as usize) }));
    match out {
        Composition::Conjunctive(SeparatedTerm(t2, v2)) => {
            assert!(t2 == termination, "C10 a repetition keeps the termination of its body");
            assert!(mem(&v2, x as u128) == mem(&expected, x as u128), "C10 a repetition multiplies the depth variance of its body");
        },
        Composition::Disjunctive(d) => {
            core::mem::forget(d);
            assert!(false, "C10 product of a conjunctive term is conjunctive")
        },
    }
}

//@ob C10.sep.product.one-sided
//@ props: C10
//@ kind: bounded(repetition bounds enumerated via from_closed_and_open(lo <= 3, hi <= 3 or open); body variance invariant, unbounded or lower-bounded with bounds <= 2^40; termination symbolic)
//@ tier: thorough
//@ fns: src/token/variance/invariant/term.rs::SeparatedTerm::product src/token/mod.rs::Repetition::finalize<Depth> src/token/mod.rs::Repetition::variance
//@ pre: any separated depth term (termination t, variance v one-sided), any enumerated repetition range r
//@ post: the real Repetition::finalize on a real BranchKind::Repetition (Box child) keeps the termination and multiplies the variance: result = SeparatedTerm(t, v x r)
fn ob_c10_sep_product_one_sided(t: u8, k: u8, a: usize, lo: u8, hi: u8, x: usize) {
    vassume!(k <= 2);
    sep_product(t, k, a, 0, lo, hi, x)
}

//@ob C10.sep.product
//@ props: C10
//@ kind: bounded(repetition bounds enumerated via from_closed_and_open(lo <= 3, hi <= 3 or open); termination and variance of the body symbolic, bounds <= 2^40)
//@ tier: thorough
//@ fns: src/token/variance/invariant/term.rs::SeparatedTerm::product src/token/mod.rs::Repetition::finalize<Depth> src/token/mod.rs::Repetition::variance
//@ pre: any separated depth term (termination t, variance v), any enumerated repetition range r
//@ post: as C10.sep.product.one-sided, for every body variance
fn ob_c10_sep_product(t: u8, k: u8, a: usize, b: usize, lo: u8, hi: u8, x: usize) {
    sep_product(t, k, a, b, lo, hi, x)
}

// the variance of a conjunctive term; a disjunctive term (HashSet) is forgotten, not dropped
fn unwrap_conjunctive(t: InvariantTerm<Depth>) -> TV {
    match t {
        Composition::Conjunctive(SeparatedTerm(_, v)) => v,
        Composition::Disjunctive(d) => {
            core::mem::forget(d);
            panic!("C09/C10 the term of a conjunctive body is conjunctive")
        },
    }
}
fn mk_termination(t: u8) -> Termination {
    match t {
        0 => Termination::Open,
        1 => Termination::First,
        2 => Termination::Last,
        3 => Termination::Closed,
        _ => Termination::Coalescent,
    }
}
fn mk_repetition(lower: usize, upper: Option<usize>) -> BranchKind<'static, ()> {
    BranchKind::Repetition(Repetition { token: Box::new(Token::new(leaf(5), ())), lower, upper })
}

// ---------------------------------------------------------------------------------------------
// C09: term-level kernels of the exhaustiveness verdict
// ---------------------------------------------------------------------------------------------

//@ob C09.inv.is_exhaustive
//@ props: C09 C05
//@ kind: complete
//@ fns: src/token/variance/invariant/mod.rs::TokenVariance<Depth>::is_exhaustive src/token/variance/invariant/mod.rs::BoundaryTerm<Depth>::is_exhaustive src/token/variance/mod.rs::Variance::has_upper_bound src/token/variance/mod.rs::Variance::is_unbounded src/token/variance/mod.rs::Variance::is_bounded
//@ pre: any well-formed depth variance v; naturals x <= y
//@ post: is_exhaustive(v) => the matched depths are upward closed (x in gamma(v) => y in gamma(v)) -- a descendant of a match is never excluded by depth; not is_exhaustive(v) => gamma(v) is bounded above (some deeper descendant is excluded). The BoundaryTerm verdict of a conjunctive term is Always / Never accordingly, never Sometimes. is_unbounded / is_bounded agree with gamma = N
fn ob_c09_inv_is_exhaustive(k: u8, a: usize, b: usize, t: u8, x: usize, y: usize) {
    use vnat::{mk_tv, valid_tv};
    vassume!(k <= 4 && t <= 4 && valid_tv(k, a, b) && x <= y);
    let v: TV = mk_tv(k, a, b);
    let r = v.is_exhaustive();
    vcover!(r && k == 2);
    vcover!(!r && k == 4);
    if r {
        assert!(!mem(&v, x as u128) || mem(&v, y as u128), "C09 an exhaustive depth variance is upward closed");
    }
    else {
        let top: u128 = match k {
            0 | 3 => a as u128,
            _ => a as u128 + b as u128,
        };
        assert!(k == 0 || k == 3 || k == 4, "C09 a depth variance without an upper bound is exhaustive");
        assert!(!mem(&v, y as u128) || y as u128 <= top, "C09 a non-exhaustive depth variance is bounded above");
    }
    assert!(v.is_unbounded() == (k == 1) && v.is_bounded() == (k != 1));
    let term: BoundaryTerm<Depth> = Composition::Conjunctive(SeparatedTerm(mk_termination(t), v));
    let w = term.is_exhaustive();
    assert!(w.is_always() == r && w.is_never() == !r, "C09 the verdict of a conjunctive term is definite");
}

//@ob C09.exh.finalize.repetition-stride
//@ props: C09 C05
//@ kind: complete
//@ fns: src/token/variance/mod.rs::TreeExhaustiveness::finalize
//@ pre: a real BranchKind::Repetition (Box child) with ANY bounds (lower: usize, upper: Option<usize>), a conjunctive body term with any termination and an invariant depth n >= 2 (all of usize)
//@ post: the finalised term is not exhaustive whatever the bounds -- a repetition whose body spans n >= 2 components only matches depths k*n (`<*/*/>`), so an unbounded repetition of it must not become an always-exhaustive verdict
fn ob_c09_exh_finalize_repetition_stride(t: u8, n: usize, lower: usize, has_upper: bool, upper: usize) {
    vassume!(t <= 4 && n >= 2);
    let rep = mk_repetition(lower, if has_upper { Some(upper) } else { None });
    let v: TV = Variance::Invariant(Depth::new(n));
    let term: InvariantTerm<Depth> = Composition::Conjunctive(SeparatedTerm(mk_termination(t), v));
    vcover!(!has_upper && lower == 0);
    vcover!(has_upper && lower < upper);
    let mut fold = variance::TreeExhaustiveness;
    let out = crate::token::walk::Fold::<()>::finalize(&mut fold, &rep, term);
    core::mem::forget(rep); // no drop glue of the recursive token type in the goto program
    let v2 = unwrap_conjunctive(out);
    assert!(!v2.is_exhaustive(), "C09 a repetition of a body that spans two or more components is never always-exhaustive");
}

//@ob C09.exh.finalize.repetition-stride.small
//@ props: C09 C05
//@ kind: bounded(stride n in 2..=4 and repetition bounds lower <= 3, upper <= 3 or open, all enumerated: stays decidable when a change makes this path multiply)
//@ fns: src/token/variance/mod.rs::TreeExhaustiveness::finalize
//@ pre: as C09.exh.finalize.repetition-stride with small enumerated stride and bounds
//@ post: the finalised term is not exhaustive
fn ob_c09_exh_finalize_repetition_stride_small(t: u8, n: u8, lo: u8, hi: u8) {
    vassume!(t <= 4 && n >= 2 && n <= 4 && lo <= 3 && hi <= 4 && hi >= 1 && (hi == 4 || lo <= hi));
    let upper = match hi {
        1 => Some(1),
        2 => Some(2),
        3 => Some(3),
        _ => None,
    };
    let rep = mk_repetition(match lo { 0 => 0, 1 => 1, 2 => 2, _ => 3 }, upper);
    let v: TV = match n {
        2 => Variance::Invariant(Depth::new(2)),
        3 => Variance::Invariant(Depth::new(3)),
        _ => Variance::Invariant(Depth::new(4)),
    };
    let term: InvariantTerm<Depth> = Composition::Conjunctive(SeparatedTerm(mk_termination(t), v));
    vcover!(lo == 1 && hi == 4);
    let mut fold = variance::TreeExhaustiveness;
    let out = crate::token::walk::Fold::<()>::finalize(&mut fold, &rep, term);
    core::mem::forget(rep);
    let v2 = unwrap_conjunctive(out);
    assert!(!v2.is_exhaustive(), "C09 a repetition of a body that spans two or more components is never always-exhaustive");
}

//@ob C09.exh.fold.discard
//@ props: C09 C05
//@ kind: bounded(a concatenation of one or two children for which the sequencer supplied exactly ONE term; that term symbolic (every termination and variance shape). Two or more supplied terms go through the Vec<TreeTerm> reduce and gave no verdict in 10 min)
//@ unwind: 6
//@ fns: src/token/variance/mod.rs::TreeExhaustiveness::fold src/token/mod.rs::Concatenation::fold<Depth> src/token/variance/invariant/mod.rs::BoundaryTerm<Depth>::is_exhaustive
//@ pre: a real concatenation branch; the sequencer kept only its last child (whose term is supplied) -- either because it is the only child or because the child to its left is bounded in breadth or text
//@ post: without discarded children the supplied term is returned unchanged; with a discarded (bounded) child to the left, an exhaustive term is returned unchanged (`a/**`: the bounded prefix does not matter) and a non-exhaustive term is replaced by a non-exhaustive one (never upgraded)
fn ob_c09_exh_fold_discard(t: u8, k: u8, a: usize, b: usize, two: bool) {
    use vnat::{mk_tv, valid_tv};
    vassume!(t <= 4 && k <= 4 && valid_tv(k, a, b));
    let v: TV = mk_tv(k, a, b);
    let tokens = if two { vec![Token::new(leaf(0), ()), Token::new(leaf(2), ())] } else { vec![Token::new(leaf(2), ())] };
    let branch: BranchKind<'static, ()> = BranchKind::Concatenation(Concatenation(tokens));
    vcover!(two && k == 2);
    vcover!(two && k == 4);
    vcover!(!two);
    let mut fold = variance::TreeExhaustiveness;
    let out = crate::token::walk::Fold::<()>::fold(&mut fold, &branch, vec![Composition::Conjunctive(SeparatedTerm(mk_termination(t), v))]);
    core::mem::forget(branch);
    match out {
        Some(Composition::Conjunctive(SeparatedTerm(t2, v2))) => {
            if !two || v.is_exhaustive() {
                assert!(v2 == v && t2 == mk_termination(t), "C09 a kept term is passed on unchanged");
            }
            else {
                assert!(!v2.is_exhaustive(), "C09 a non-exhaustive suffix behind a bounded prefix is never upgraded");
            }
        },
        Some(Composition::Disjunctive(d)) => {
            core::mem::forget(d);
            assert!(false, "C09 the fold of conjunctive terms is conjunctive")
        },
        None => assert!(false, "C09 a supplied term is never dropped"),
    }
}

//@ob C09.exh.finalize.nested-stride
//@ props: C09 C05
//@ kind: bounded(stride n in 2..=4; inner and outer repetition bounds lower <= 3, upper <= 3 or open, all enumerated)
//@ fns: src/token/variance/mod.rs::TreeExhaustiveness::finalize
//@ pre: a body of invariant depth n >= 2 inside two nested repetitions with any (enumerated) bounds
//@ post: the term finalised by the inner and then by the outer repetition is not exhaustive: `<<*/*/:1,2>:1,>` only matches depths that are multiples of 2, so the stride must not be forgotten by an inner bounded repetition and then multiplied into an unbounded range by an outer one
fn ob_c09_exh_finalize_nested_stride(t: u8, n: u8, lo1: u8, hi1: u8, lo2: u8, hi2: u8) {
    vassume!(t <= 4 && n >= 2 && n <= 4);
    vassume!(lo1 <= 3 && hi1 <= 4 && hi1 >= 1 && (hi1 == 4 || lo1 <= hi1));
    vassume!(lo2 <= 3 && hi2 <= 4 && hi2 >= 1 && (hi2 == 4 || lo2 <= hi2));
    let bound = |hi: u8| match hi {
        1 => Some(1),
        2 => Some(2),
        3 => Some(3),
        _ => None,
    };
    let small = |lo: u8| match lo {
        0 => 0usize,
        1 => 1,
        2 => 2,
        _ => 3,
    };
    let inner = mk_repetition(small(lo1), bound(hi1));
    let outer = mk_repetition(small(lo2), bound(hi2));
    let v: TV = match n {
        2 => Variance::Invariant(Depth::new(2)),
        3 => Variance::Invariant(Depth::new(3)),
        _ => Variance::Invariant(Depth::new(4)),
    };
    let term: InvariantTerm<Depth> = Composition::Conjunctive(SeparatedTerm(mk_termination(t), v));
    vcover!(lo1 == 1 && hi1 == 2 && hi2 == 4);
    let mut fold = variance::TreeExhaustiveness;
    let once = crate::token::walk::Fold::<()>::finalize(&mut fold, &inner, term);
    let once = Composition::Conjunctive(SeparatedTerm(mk_termination(t), unwrap_conjunctive(once)));
    let twice = crate::token::walk::Fold::<()>::finalize(&mut fold, &outer, once);
    core::mem::forget(inner);
    core::mem::forget(outer);
    let v2 = unwrap_conjunctive(twice);
    assert!(!v2.is_exhaustive(), "C09 nested repetitions of a body that spans two or more components are never always-exhaustive");
}

//@ob C09.exh.finalize.repetition-unit
//@ props: C09 C05
//@ kind: bounded(repetition bounds enumerated: lower <= 3, upper <= 3 or open)
//@ fns: src/token/variance/mod.rs::TreeExhaustiveness::finalize src/token/mod.rs::Repetition::finalize<Depth>
//@ pre: a real BranchKind::Repetition with enumerated bounds, a conjunctive body term with invariant depth 0 or 1, or an unbounded / lower-bounded variant depth
//@ post: the verdict of the finalised term is that of the depth product v x r (unit-stride bodies: `<*/>` is exhaustive exactly when the repetition is unbounded above; zero-depth bodies never are; an unbounded body stays unbounded unless the repetition can be empty-only)
fn ob_c09_exh_finalize_repetition_unit(t: u8, k: u8, l: usize, lo: u8, hi: u8) {
    vassume!(t <= 4 && k <= 3 && lo <= 3 && hi <= 4 && hi >= 1 && (hi == 4 || lo <= hi) && l >= 1 && l <= 1usize << 40);
    let upper = if hi == 4 { None } else { Some(hi as usize) };
    let rep = mk_repetition(lo as usize, upper);
    let v: TV = match k {
        0 => Variance::Invariant(Depth::new(0)),
        1 => Variance::Invariant(Depth::new(1)),
        2 => Variance::Variant(Boundedness::Unbounded),
        _ => Variance::Variant(Boundedness::Bounded(BoundedVariantRange::Lower(core::num::NonZeroUsize::new(l).unwrap()))),
    };
    let term: InvariantTerm<Depth> = Composition::Conjunctive(SeparatedTerm(mk_termination(t), v));
    vcover!(k == 1 && hi == 4);
    vcover!(k == 1 && hi == 3);
    let mut fold = variance::TreeExhaustiveness;
    let out = crate::token::walk::Fold::<()>::finalize(&mut fold, &rep, term);
    core::mem::forget(rep);
    let v2 = unwrap_conjunctive(out);
    let expected = ops::product(v, NaturalRange::from_closed_and_open(lo as usize, upper));
    assert!(v2.is_exhaustive() == expected.is_exhaustive(), "C09 unit-stride repetitions use the depth product");
    if k == 1 {
        assert!(v2.is_exhaustive() == (hi == 4), "C09 `<*/>`-like repetitions are exhaustive exactly when unbounded above");
    }
    if k == 0 {
        assert!(!v2.is_exhaustive(), "C09 a body without components is never exhaustive");
    }
}

//@ob C09.leaf.sequencer-predicate
//@ props: C09 C11 C05
//@ kind: complete
//@ fns: src/token/mod.rs::Wildcard::term<Breadth> src/token/mod.rs::Literal::term<Breadth> src/token/mod.rs::Class::term<Breadth> src/token/mod.rs::Separator::term<Breadth> src/token/mod.rs::Wildcard::term<Text> src/token/mod.rs::LeafKind::boundary
//@ pre: any leaf kind (all eight enumerated)
//@ post: breadth is unbounded exactly for `*`, `$` and `**` (not for `?`, literals, classes, separators); text is unbounded for every wildcard and bounded or invariant for every other leaf: so "unbounded breadth and unbounded text" -- the test the exhaustiveness sequencer applies -- singles out exactly the leaves that can absorb arbitrary further text
fn ob_c09_leaf_sequencer_predicate(k: u8) {
    vassume!(k < KINDS);
    let (breadth_unbounded, text_unbounded) = match k {
        0 => (variance::term::<Breadth>(&leaf(0)).is_unbounded(), variance::term::<Text>(&leaf(0)).is_unbounded()),
        1 => (variance::term::<Breadth>(&leaf(1)).is_unbounded(), variance::term::<Text>(&leaf(1)).is_unbounded()),
        2 => (variance::term::<Breadth>(&leaf(2)).is_unbounded(), variance::term::<Text>(&leaf(2)).is_unbounded()),
        3 => (variance::term::<Breadth>(&leaf(3)).is_unbounded(), variance::term::<Text>(&leaf(3)).is_unbounded()),
        4 => (variance::term::<Breadth>(&leaf(4)).is_unbounded(), variance::term::<Text>(&leaf(4)).is_unbounded()),
        5 => (variance::term::<Breadth>(&leaf(5)).is_unbounded(), variance::term::<Text>(&leaf(5)).is_unbounded()),
        6 => (variance::term::<Breadth>(&leaf(6)).is_unbounded(), variance::term::<Text>(&leaf(6)).is_unbounded()),
        _ => (variance::term::<Breadth>(&leaf(7)).is_unbounded(), variance::term::<Text>(&leaf(7)).is_unbounded()),
    };
    vcover!(k == 2);
    vcover!(k == 1);
    assert!(breadth_unbounded == matches!(k, 2 | 3 | 6 | 7), "C09 breadth is unbounded exactly for `*`, `$` and tree wildcards");
    assert!(text_unbounded == matches!(k, 1 | 2 | 3 | 6 | 7), "C09/C11 text is unbounded exactly for wildcards");
}

// ---------------------------------------------------------------------------------------------
// C11: sources of text variance at the leaves
// ---------------------------------------------------------------------------------------------

//@ob C11.leaf.class.negated
//@ props: C11 C05
//@ kind: complete
//@ fns: src/token/mod.rs::Class::term<Text>
//@ pre: a negated class
//@ post: it reports variant text (a negated class matches more than one path)
fn ob_c11_leaf_class_negated(x: bool) {
    let negated = Class { is_negated: true, archetypes: Vec::new() };
    vcover!(x);
    assert!(VarianceTerm::<Text>::term(&negated).is_variant(), "C11 a negated class is variant");
}

//@ob C11.leaf.class.range
//@ props: C11 C05
//@ kind: complete
//@ unwind: 6
//@ fns: src/token/mod.rs::Archetype::term<Text>
//@ pre: a range archetype with any two distinct end points, in either order (all char x char)
//@ post: it reports variant text (a range of more than one character matches two different paths; a reversed range never matches and must not report invariant text either)
fn ob_c11_leaf_class_range(a: char, b: char) {
    vassume!(a != b);
    vcover!(a > b);
    vcover!(a < b);
    let range = Archetype::Range(a, b);
    let term = VarianceTerm::<Text>::term(&range);
    let variant = term.is_variant();
    core::mem::forget(term); // no VecDeque<Cow<str>> drop glue in the goto program (measured: 1.6 s vs no verdict in 1500 s)
    assert!(variant, "C11 a range of more than one character is variant");
}

//@ob C11.leaf.class.single
//@ props: C11 C05
//@ kind: complete
//@ unwind: 6
//@ fns: src/token/mod.rs::Archetype::term<Text> src/token/mod.rs::Class::term<Text> src/token/mod.rs::Class::fold
//@ pre: a non-negated class with exactly one archetype: a character c, or a range a-b (all of char)
//@ post: on a case-sensitive platform it reports invariant text exactly when it lists one character (c, or a-a); with a != b it is variant -- a class that can match two different characters never reports invariant text
fn ob_c11_leaf_class_single(is_range: bool, a: char, b: char) {
    let archetype = if is_range { Archetype::Range(a, b) } else { Archetype::Character(a) };
    let class = Class { is_negated: false, archetypes: vec![archetype] };
    vcover!(is_range && a == b);
    vcover!(is_range && a != b);
    vcover!(!is_range);
    let term = VarianceTerm::<Text>::term(&class);
    let invariant = term.is_invariant();
    core::mem::forget(term);
    core::mem::forget(class);
    let one_character = !is_range || a == b;
    assert!(invariant == (one_character && !PATHS_ARE_CASE_INSENSITIVE), "C11 a class is invariant exactly when it can match a single character");
}

fn literal_casing(n: u8, b1: u8, b2: u8, flag: bool) {
    vassume!(n >= 1 && n <= 2 && b1 < 128 && b2 < 128);
    let buf = [b1, b2];
    // SAFETY: ASCII bytes are valid UTF-8.
    let text = unsafe { core::str::from_utf8_unchecked(&buf[..n as usize]) };
    let literal = Literal { text: Cow::Borrowed(text), is_case_insensitive: flag };
    let has_letter = (b1 as char).is_ascii_alphabetic() || (n == 2 && (b2 as char).is_ascii_alphabetic());
    vcover!(flag && has_letter);
    vcover!(flag && !has_letter);
    let expected = (PATHS_ARE_CASE_INSENSITIVE != flag) && has_letter;
    assert!(literal.has_variant_casing() == expected, "C11 casing under a mismatching case flag is variance");
    match literal.variance() {
        Variance::Variant(_) => assert!(expected, "C11 variant only for variant casing"),
        Variance::Invariant(t) => {
            assert!(!expected, "C11 a cased literal under a mismatching flag never reports invariant text");
            assert!(t.as_ref().as_ptr() == text.as_ptr() && t.len() == n as usize, "C11 the invariant text of a literal is its own text");
        },
    }
}

//@ob C11.literal.casing.len1
//@ props: C11 C05
//@ kind: bounded(literals of one ASCII character; the case flag symbolic -- two characters: no verdict in 1500 s since has_casing consults the Unicode case-mapping tables)
//@ unwind: 14
//@ fns: src/token/mod.rs::Literal::variance src/token/mod.rs::Literal::has_variant_casing src/lib.rs::StrExt::has_casing src/lib.rs::CharExt::has_casing
//@ pre: any literal of one ASCII character, any case flag
//@ post: the literal reports variant text <=> its case sensitivity differs from the platform's and it is a letter: a literal with casing under a case-insensitive flag on a case-sensitive platform is variant, everything else is invariant over its own text
fn ob_c11_literal_casing_len1(b1: u8, flag: bool) {
    literal_casing(1, b1, 0, flag)
}

// ---------------------------------------------------------------------------------------------
// C12: rooting classification of leaves
// ---------------------------------------------------------------------------------------------

//@ob C12.leaf.is_rooting
//@ props: C12 C05
//@ kind: complete
//@ fns: src/token/mod.rs::LeafKind::is_rooting src/token/mod.rs::LeafKind::boundary src/token/mod.rs::LeafKind::is_capturing
//@ pre: any leaf kind (all eight enumerated)
//@ post: is_rooting <=> the leaf is a separator or a rooted tree wildcard -- exactly the leaves whose language consists of strings that begin with `/`; boundary() is Separator for a separator, Component for a tree wildcard, None otherwise; exactly classes and wildcards capture
fn ob_c12_leaf_is_rooting(k: u8) {
    vassume!(k < KINDS);
    let l = leaf(k);
    vcover!(k == 7);
    vcover!(k == 6);
    assert!(l.is_rooting() == (k == 5 || k == 7), "C12 only a separator and a rooted tree wildcard root a pattern");
    match l.boundary() {
        Some(Boundary::Separator) => assert!(k == 5, "C12 separator boundary"),
        Some(Boundary::Component) => assert!(k == 6 || k == 7, "C12 component boundary"),
        None => assert!(class_of(k) == 0, "C12 text leaves are not boundaries"),
    }
    assert!(l.is_capturing() == matches!(k, 1 | 2 | 3 | 4 | 6 | 7), "C04/C12 classes and wildcards capture");
}

//@ob C12.components.len3
//@ props: C12 C05
//@ kind: bounded(concatenations of exactly 3 leaf tokens; every leaf kind symbolic, adjacency rule T6)
//@ unwind: 6
//@ fns: src/token/mod.rs::components src/token/mod.rs::Component::tokens src/token/mod.rs::Token::boundary src/token/mod.rs::Token::as_wildcard
//@ pre: a rule-respecting sequence of 3 leaf tokens
//@ post: the REAL components() yields, in order, exactly the components of the path expression: separators delimit and belong to no component, a tree wildcard is a component of its own, every other component is a maximal run of text leaves (so a component spelled entirely as the literal `.` or `..` is seen as such, also next to a tree wildcard)
fn ob_c12_components_len3(ks: [u8; 3]) {
    let ms = [0usize; 3];
    vassume!(ground_truth_any_end(&ks, &ms));
    let tokens: [Token<'static, ()>; 3] = [Token::new(leaf(ks[0]), ()), Token::new(leaf(ks[1]), ()), Token::new(leaf(ks[2]), ())];
    vcover!(ks[0] == 0 && ks[1] == 6 && ks[2] == 0);
    vcover!(ks[0] == 0 && ks[1] == 5 && ks[2] == 1);
    vcover!(ks[0] == 5 && ks[1] == 0 && ks[2] == 5);
    let mut it = components(&tokens);
    let mut i = 0usize;
    while i < 3 {
        let c = class_of(ks[i]);
        if c == 1 {
            i += 1;
            continue;
        }
        let start = i;
        let len = if c == 2 {
            1
        }
        else {
            let mut j = i;
            while j < 3 && class_of(ks[j]) == 0 {
                j += 1;
            }
            j - i
        };
        match it.next() {
            Some(component) => {
                assert!(component.tokens().len() == len, "C12 a component is a tree wildcard or a maximal run of text leaves");
                assert!(core::ptr::eq(component.tokens().as_ptr(), tokens[start..].as_ptr()), "C12 components come in order and skip exactly the separators");
            },
            None => assert!(false, "C12 no component is dropped"),
        }
        i = start + len;
    }
    assert!(it.next().is_none(), "C12 no component is invented");
    core::mem::forget(it);
    core::mem::forget(tokens);
}

//@ob C12.literal.semantic
//@ props: C12 C05
//@ kind: bounded(components of one literal token of 1..=3 ASCII characters; a component of several literal tokens goes through itertools' `join` (fmt machinery) and ran out of memory)
//@ unwind: 8
//@ fns: src/token/mod.rs::LiteralSequence::is_semantic_literal src/token/mod.rs::LiteralSequence::text src/token/mod.rs::Component::literal
//@ pre: a component made of one literal token (any ASCII text of 1..=3 characters)
//@ post: it is a literal sequence and it is a semantic literal <=> its text is `.` or `..`
fn ob_c12_literal_semantic(n: u8, a1: u8, a2: u8, a3: u8) {
    vassume!(n >= 1 && n <= 3 && a1 < 128 && a2 < 128 && a3 < 128);
    let buf = [a1, a2, a3];
    // SAFETY: ASCII bytes are valid UTF-8.
    let text = unsafe { core::str::from_utf8_unchecked(&buf[..n as usize]) };
    let tokens: [Token<'_, ()>; 1] = [Token::new(LeafKind::Literal(Literal { text: Cow::Borrowed(text), is_case_insensitive: false }), ())];
    // the borrow is of a local buffer: shorten the claimed lifetime by forgetting the tokens below
    let component = Component(&tokens[..]);
    vcover!(n == 2 && a1 == b'.' && a2 == b'.');
    vcover!(n == 3 && a1 == b'.' && a2 == b'.' && a3 == b'.');
    let expected = a1 == b'.' && (n == 1 || (n == 2 && a2 == b'.'));
    match component.literal() {
        Some(sequence) => assert!(sequence.is_semantic_literal() == expected, "C12 a component is a semantic literal exactly when it is spelled `.` or `..`"),
        None => assert!(false, "C12 a component of literals is a literal sequence"),
    }
    core::mem::forget(tokens);
}

// ---------------------------------------------------------------------------------------------
// C17: un-rooting a tree wildcard moves its span past the separator
// ---------------------------------------------------------------------------------------------

//@ob C17.unroot
//@ props: C17 C05
//@ kind: complete
//@ fns: src/token/mod.rs::Wildcard::unroot src/token/mod.rs::Wildcard::unroot<Span> src/token/mod.rs::LeafKind::unroot
//@ pre: any leaf kind with a span (s, n) inside an expression of length <= isize::MAX; a rooted tree wildcard's span covers at least its leading `/` (n >= 1)
//@ post: a rooted tree wildcard returns 1, is no longer rooted, and its span becomes (s + 1, n - 1): still inside the old span, same end, excluding exactly the leading `/`; every other leaf returns 0 and nothing changes
fn ob_c17_unroot(k: u8, s: usize, n: usize) {
    vassume!(k < KINDS);
    vassume!(s <= isize::MAX as usize && n <= isize::MAX as usize - s);
    vassume!(k != 7 || n >= 1);
    let mut l = leaf(k);
    let mut span: Span = (s, n);
    vcover!(k == 7);
    vcover!(k == 6);
    let moved: usize = Unroot::unroot(&mut l, &mut span);
    if k == 7 {
        assert!(moved == ROOT_SEPARATOR_EXPRESSION.len() && moved == 1, "C17 un-rooting reports the length of the separator");
        assert!(matches!(l, LeafKind::Wildcard(Wildcard::Tree { has_root: false })), "C08 the postfix is never rooted");
        assert!(span == (s + 1, n - 1), "C17 the span excludes exactly the leading separator");
        assert!(span.0 + span.1 == s + n, "C17 the span keeps its end");
    }
    else {
        assert!(moved == 0 && span == (s, n), "C17 other leaves are untouched");
        assert!(l.is_rooting() == (k == 5));
    }
}

// ---------------------------------------------------------------------------------------------
// C19: ownership conversions of leaves
// ---------------------------------------------------------------------------------------------

//@ob C19.owned.literal
//@ props: C19 C11 C05
//@ kind: bounded(literal text of 0..=2 ASCII bytes; case flag symbolic)
//@ unwind: 6
//@ fns: src/token/mod.rs::LeafKind::into_owned src/token/mod.rs::Literal::into_owned
//@ pre: a literal leaf with any text of up to 2 ASCII bytes and any case flag
//@ post: into_owned keeps the kind, the literal's text bytes and its case flag, and the result owns its text
fn ob_c19_owned_literal(n: u8, b1: u8, b2: u8, flag: bool) {
    vassume!(n <= 2 && b1 < 128 && b2 < 128);
    let buf = [b1, b2];
    // SAFETY: ASCII bytes are valid UTF-8.
    let text = unsafe { core::str::from_utf8_unchecked(&buf[..n as usize]) };
    let l = LeafKind::Literal(Literal { text: Cow::Borrowed(text), is_case_insensitive: flag });
    vcover!(n == 2 && flag);
    vcover!(n == 0);
    match l.into_owned() {
        LeafKind::Literal(lit) => {
            assert!(lit.is_case_insensitive() == flag, "C19 case flag preserved");
            let t = lit.text().as_bytes();
            assert!(t.len() == n as usize, "C19 text length preserved");
            assert!(n < 1 || t[0] == b1, "C19 text preserved");
            assert!(n < 2 || t[1] == b2, "C19 text preserved");
            assert!(matches!(lit.text, Cow::Owned(_)), "C19 the owned literal owns its text");
        },
        _ => assert!(false, "C19 kind preserved"),
    }
}

//@ob C19.owned.leaf
//@ props: C19 C05
//@ kind: complete
//@ fns: src/token/mod.rs::LeafKind::into_owned
//@ pre: any leaf kind other than a literal (seven enumerated)
//@ post: into_owned keeps the kind, the wildcard variant and rootedness
fn ob_c19_owned_leaf(k: u8) {
    vassume!(k >= 1 && k < KINDS);
    vcover!(k == 7);
    vcover!(k == 3);
    let owned: LeafKind<'static> = leaf(k).into_owned();
    match owned {
        LeafKind::Literal(_) => assert!(false, "C19 kind preserved"),
        LeafKind::Wildcard(Wildcard::One) => assert!(k == 1, "C19 kind preserved"),
        LeafKind::Wildcard(Wildcard::ZeroOrMore(Evaluation::Eager)) => assert!(k == 2, "C19 kind preserved"),
        LeafKind::Wildcard(Wildcard::ZeroOrMore(Evaluation::Lazy)) => assert!(k == 3, "C19 kind preserved"),
        LeafKind::Class(c) => assert!(k == 4 && !c.is_negated() && c.archetypes().is_empty(), "C19 kind preserved"),
        LeafKind::Separator(_) => assert!(k == 5, "C19 kind preserved"),
        LeafKind::Wildcard(Wildcard::Tree { has_root }) => assert!((k == 6 && !has_root) || (k == 7 && has_root), "C19 rootedness preserved"),
    }
}

//@ob C19.repetition.compose-roundtrip
//@ props: C19 C05
//@ kind: complete
//@ unwind: 4
//@ fns: src/token/mod.rs::Repetition::decompose src/token/mod.rs::Repetition::compose src/token/mod.rs::Repetition::variance src/token/mod.rs::Repetition::bound_specification
//@ pre: a real repetition (Box child) with any ordered bounds lower <= upper or an open upper bound (all usize; T6: misordered bounds are rejected by the rule checker)
//@ post: the REAL decompose followed by the REAL compose -- the step fold_map performs at every repetition when a glob is re-owned, re-parsed into a combinator or partitioned -- gives back a repetition with exactly the same bounds
fn ob_c19_repetition_compose_roundtrip(lower: usize, has_upper: bool, upper: usize) {
    vassume!(!has_upper || lower <= upper);
    let bound = if has_upper { Some(upper) } else { None };
    let rep: Repetition<'static, ()> = Repetition { token: Box::new(Token::new(leaf(5), ())), lower, upper: bound };
    vcover!(has_upper && lower != 0 && lower < upper);
    vcover!(has_upper && lower == upper);
    vcover!(!has_upper && lower == 0);
    let (data, tokens) = BranchComposition::decompose(rep);
    match <Repetition<'static, ()> as BranchComposition>::compose(data, tokens) {
        Ok(back) => {
            let (l2, u2) = back.bound_specification();
            assert!(l2 == lower, "C19 the lower bound of a repetition survives decompose / compose");
            assert!(u2 == bound, "C19 the upper bound of a repetition survives decompose / compose");
            assert!(matches!(back.token().as_leaf(), Some(LeafKind::Separator(_))), "C19 the body survives decompose / compose");
            core::mem::forget(back); // no recursive drop glue in the goto program
        },
        Err(_) => assert!(false, "C19 composing the decomposed repetition succeeds"),
    }
}

// ---------------------------------------------------------------------------------------------
// Items nested in function bodies, hoisted verbatim on every run (tools/vextract.py `hoist`): the
// `IsRooting` fold of `Token::has_root` (C12) and `pop_expression_bytes` of `Tokenized::partition`
// (C17/C08). Nothing outside those functions can name them, so the text is copied byte-identically
// into this module; dropped: the enclosing function body (the fold driver call, T3).
// ---------------------------------------------------------------------------------------------
//@hoist-all src/token/mod.rs | has_root
//@hoist-all src/token/mod.rs | partition

pub(crate) fn leaf_token(k: u8) -> Token<'static, ()> {
    Token::new(leaf(k), ())
}
pub(crate) fn leaf_token_spanned(k: u8, span: Span) -> Token<'static, Span> {
    Token::new(leaf(k), span)
}
// branch kinds: 0 alternation, 1 concatenation, 2 repetition (one child); children are `?` leaves
pub(crate) fn mk_branch(bk: u8, n: usize, lower: usize, upper: Option<usize>) -> BranchKind<'static, ()> {
    let kids = match n {
        1 => vec![leaf_token(1)],
        2 => vec![leaf_token(1), leaf_token(1)],
        _ => vec![leaf_token(1), leaf_token(1), leaf_token(1)],
    };
    match bk {
        0 => BranchKind::Alternation(Alternation(kids)),
        1 => BranchKind::Concatenation(Concatenation(kids)),
        _ => {
            core::mem::forget(kids);
            BranchKind::Repetition(Repetition { token: Box::new(leaf_token(1)), lower, upper })
        },
    }
}
// the token of `</a:1,>`: a repetition (at least once) of a body that begins with a separator
pub(crate) fn rooted_repetition_token(span: Span) -> Token<'static, Span> {
    let body = Token::new(
        BranchKind::Concatenation(Concatenation(vec![leaf_token_spanned(5, (span.0 + 1, 1)), leaf_token_spanned(0, (span.0 + 2, 1))])),
        (span.0 + 1, 2),
    );
    Token::new(BranchKind::Repetition(Repetition { token: Box::new(body), lower: 1, upper: None }), span)
}
pub(crate) fn mk_concatenation_spanned(tokens: Vec<Token<'static, Span>>, span: Span) -> Token<'static, Span> {
    Token::new(BranchKind::Concatenation(Concatenation(tokens)), span)
}
pub(crate) fn mk_tokenized(expression: &'static str, token: Token<'static, Span>) -> Tokenized<'static, Span> {
    Tokenized { expression: Cow::Borrowed(expression), token }
}
// a branch token with a span: 0 alternation of two `?`, 2 repetition `<?:1,>` (children get empty spans)
pub(crate) fn spanned_branch_token(bk: u8, span: Span) -> Token<'static, Span> {
    match bk {
        0 => Token::new(BranchKind::Alternation(Alternation(vec![leaf_token_spanned(1, (0, 0)), leaf_token_spanned(1, (0, 0))])), span),
        _ => Token::new(BranchKind::Repetition(Repetition { token: Box::new(leaf_token_spanned(1, (0, 0))), lower: 1, upper: None }), span),
    }
}
fn mk_when(k: u8) -> When {
    match k {
        0 => When::Never,
        1 => When::Sometimes,
        _ => When::Always,
    }
}
// interval reading of `When` over "does a match begin with a separator": lo = must, hi = may
fn w_lo(w: When) -> u8 {
    if w.is_always() { 1 } else { 0 }
}
fn w_hi(w: When) -> u8 {
    if w.is_never() { 0 } else { 1 }
}
// one concrete (branch kind, number of terms) case of the REAL `IsRooting::fold`; the branch kind and
// the number of terms are constants at every call site (symbolic ones gave no verdict in 15 min, the
// constant cases take 2-6 s each), the terms and the repetition bounds are symbolic
fn isrooting_fold_case(bk: u8, n: usize, ws: [u8; 3], lower: usize, upper: Option<usize>) {
    let branch = mk_branch(bk, n, lower, upper);
    let terms = match n {
        1 => vec![mk_when(ws[0])],
        2 => vec![mk_when(ws[0]), mk_when(ws[1])],
        _ => vec![mk_when(ws[0]), mk_when(ws[1]), mk_when(ws[2])],
    };
    let mut fold = IsRooting;
    let r = crate::token::walk::Fold::<()>::fold(&mut fold, &branch, terms);
    core::mem::forget(branch); // no recursive drop glue in the goto program
    let r = match r {
        Some(r) => r,
        None => {
            assert!(false, "C12 a branch with starting tokens has a rooting term");
            return;
        },
    };
    let mut lo = w_lo(mk_when(ws[0]));
    let mut hi = w_hi(mk_when(ws[0]));
    let mut i = 1;
    while i < n {
        let w = mk_when(ws[i]);
        if w_lo(w) < lo {
            lo = w_lo(w);
        }
        if w_hi(w) > hi {
            hi = w_hi(w);
        }
        i += 1;
    }
    match bk {
        0 => {
            assert!(w_lo(r) == lo, "C12 an alternation always has a root only if every branch always has one");
            assert!(w_hi(r) == hi, "C12 an alternation never has a root only if no branch ever has one");
        },
        1 => {
            // the Starting sequencer hands a concatenation exactly its first token (C12.seq.starting)
            assert!(r == mk_when(ws[0]), "C12 a concatenation is rooted as its first token is");
        },
        _ => {
            if lower == 0 {
                assert!(w_lo(r) == 0, "C12 an optional repetition never makes a pattern always rooted");
                assert!(w_hi(r) == w_hi(mk_when(ws[0])), "C12 an optional repetition of an unrooted body is never rooted");
            }
            else {
                assert!(r == mk_when(ws[0]), "C12 a repetition that occurs at least once is rooted as its body is");
            }
        },
    }
}

//@ob C12.has_root.fold
//@ props: C12 C05
//@ kind: complete
//@ fns: src/token/mod.rs::Token::has_root::IsRooting::fold src/token/mod.rs::BranchKind::composition src/token/mod.rs::BranchKind::tokens src/token/mod.rs::Repetition::variance src/query.rs::When::or src/query.rs::When::certainty src/query.rs::When::and
//@ pre: any rooting terms (Never / Sometimes / Always) of the starting tokens of a branch: 1..=3 branches of an alternation, the first token of a concatenation, the body of a repetition with any ordered bounds
//@ post: the REAL fold of has_root (hoisted from the function body) gives, on the interval reading of When: alternation = join of its branches (Always only if every branch is Always, Never only if every branch is Never); concatenation = its first token; repetition = its body if it occurs at least once, and never Always if it may occur zero times
fn ob_c12_has_root_fold(w0: u8, w1: u8, w2: u8, lower: usize, bounded: bool, upper: usize) {
    vassume!(w0 <= 2 && w1 <= 2 && w2 <= 2);
    // T6: ordered, non-degenerate repetition bounds
    vassume!(!bounded || (lower <= upper && upper != 0));
    let up = if bounded { Some(upper) } else { None };
    let ws = [w0, w1, w2];
    vcover!(w0 == 2 && w1 == 1);
    vcover!(lower == 0 && w0 == 2);
    isrooting_fold_case(0, 1, ws, lower, up);
    isrooting_fold_case(0, 2, ws, lower, up);
    isrooting_fold_case(0, 3, ws, lower, up);
    isrooting_fold_case(1, 1, ws, lower, up);
    isrooting_fold_case(2, 1, ws, lower, up);
}

//@ob C12.has_root.term
//@ props: C12 C05
//@ kind: complete
//@ fns: src/token/mod.rs::Token::has_root::IsRooting::term src/token/mod.rs::LeafKind::is_rooting src/query.rs::When::from<bool>
//@ pre: any leaf kind (all eight enumerated)
//@ post: the REAL leaf term of has_root is Always for a separator and a rooted tree wildcard, Never for every other leaf -- never Sometimes (a glob without branches never reports 'sometimes')
fn ob_c12_has_root_term(k: u8) {
    vassume!(k < KINDS);
    let l = leaf(k);
    let mut fold = IsRooting;
    let w = crate::token::walk::Fold::<()>::term(&mut fold, &l);
    core::mem::forget(l);
    vcover!(k == 7);
    assert!(w.is_always() == (k == 5 || k == 7), "C12 exactly separators and rooted tree wildcards always root");
    assert!(w.is_never() == !(k == 5 || k == 7), "C12 a leaf is never 'sometimes' rooted");
}

//@ob C17.partition.pop-expression-bytes
//@ props: C17 C05
//@ kind: bounded(expressions of at most 4 bytes, every valid UTF-8 content; any offset)
//@ unwind: 6
//@ fns: src/token/mod.rs::Tokenized::partition::pop_expression_bytes
//@ pre: any valid UTF-8 expression of at most 4 bytes; an offset that lies on a character boundary or beyond the end (the sum of whole token spans, T4)
//@ post: the REAL pop_expression_bytes (hoisted from partition) returns exactly the expression without its first min(offset, len) BYTES -- the same unit the token spans are shifted by -- so spans of the postfix index the postfix expression
fn ob_c17_partition_pop_expression_bytes(buf: [u8; 4], len: usize, n: usize) {
    vassume!(len <= 4);
    let s = match core::str::from_utf8(&buf[..len]) {
        Ok(s) => s,
        Err(_) => return,
    };
    vassume!(n >= len || s.is_char_boundary(n));
    vcover!(len == 4 && n == 3);
    vcover!(len == 2 && n == 7);
    let r = pop_expression_bytes(s, n);
    let m = if n < len { n } else { len };
    assert!(r.len() == len - m, "C17 exactly min(offset, len) bytes are removed");
    assert!(r.as_ptr() as usize == s.as_ptr() as usize + m, "C17 the bytes are removed from the front");
}

// The `expression:` field of the postfix `Tokenized` that `partition` builds, hoisted as an EXPRESSION
// (tools/vextract.py `hoist-expr`): its free variables are the locals of `partition`, bound here as
// parameters. `n` (the number of popped tokens) and `unrooted` are in scope in the real body too, so
// an edit that reads the wrong one of them compiles here exactly as it does there.
#[allow(unused_variables, unused_mut)]
fn partition_postfix_expression<'t>(expression: Cow<'t, str>, n: usize, unrooted: usize, offset: usize) -> Cow<'t, str> {
//@hoist-expr src/token/mod.rs | partition | expression: match expression | expression:
}

//@ob C17.partition.expression.borrowed
//@ props: C17 C19
//@ kind: bounded(expressions of at most 4 bytes, every valid UTF-8 content; any offset, token count and un-rooting)
//@ unwind: 6
//@ fns: src/token/mod.rs::Tokenized::partition
//@ pre: a BORROWED expression of at most 4 bytes; an offset on a character boundary or beyond the end; any number of popped tokens and any un-rooting amount (both unrelated to the offset)
//@ post: the REAL `expression:` arm of partition (hoisted as an expression on every run) yields the expression without its first min(offset, len) bytes -- the amount the spans of the postfix tokens were shifted by, not the token count -- still borrowed from the same buffer
fn ob_c17_partition_expression_borrowed(buf: [u8; 4], len: usize, n: usize, unrooted: usize, offset: usize) {
    vassume!(len <= 4);
    let s = match core::str::from_utf8(&buf[..len]) {
        Ok(s) => s,
        Err(_) => return,
    };
    vassume!(offset >= len || s.is_char_boundary(offset));
    vcover!(len == 4 && offset == 3 && n == 1);
    let r = partition_postfix_expression(Cow::Borrowed(s), n, unrooted, offset);
    let m = if offset < len { offset } else { len };
    assert!(r.len() == len - m, "C17 the postfix expression lacks exactly min(offset, len) bytes");
    assert!(r.as_ptr() as usize == s.as_ptr() as usize + m, "C17 the bytes are removed from the front of the borrowed expression");
    assert!(matches!(r, Cow::Borrowed(_)), "C19 the postfix of a borrowed expression borrows");
}

//@ob C17.partition.expression.owned
//@ props: C17 C19
//@ kind: bounded(the 4-byte expression `a/bc`; any offset, token count and un-rooting)
//@ unwind: 6
//@ fns: src/token/mod.rs::Tokenized::partition
//@ pre: an OWNED expression (str::parse::<Glob>, Glob::into_owned) -- the constant `a/bc`, since a heap string of symbolic length and content gives no verdict in 420 s --; any offset, any number of popped tokens and any un-rooting amount
//@ post: the REAL `expression:` arm of partition yields, byte for byte, what the borrowed arm yields: the expression without its first min(offset, len) bytes
fn ob_c17_partition_expression_owned(n: usize, unrooted: usize, offset: usize) {
    let s = "a/bc";
    let len = 4usize;
    vcover!(offset == 3 && n == 1);
    vcover!(offset == 9 && n == 2);
    let r = partition_postfix_expression(Cow::Owned(String::from(s)), n, unrooted, offset);
    let m = if offset < len { offset } else { len };
    assert!(r.len() == len - m, "C17 the postfix of an owned expression lacks exactly min(offset, len) bytes");
    let (rb, sb) = (r.as_bytes(), s.as_bytes());
    let mut i = 0;
    while i < 4 {
        if i < rb.len() && m + i < len {
            assert!(rb[i] == sb[m + i], "C19 the postfix of an owned expression has the bytes of the borrowed one");
        }
        i += 1;
    }
    core::mem::forget(r);
}

//@ob C10.token.canary
//@ props: C10
//@ kind: canary
//@ fns: -
//@ pre: none
//@ post: must FAIL
fn ob_c10_token_canary(k: u8) {
    vassume!(k < KINDS);
    let _ = real_leaf_term(k).finalize();
    assert!(k != 3, "canary");
}
