// Contracts for src/token/mod.rs leaves, src/token/variance/invariant/{mod,term}.rs (C10 component
// counting, C09 leaf predicates, C11 leaf text variance, C12 rooting, C17 unroot, C19 ownership).
// Injected as a child module of `token` (needs private fields of Literal / Class / Repetition).
//
// Ground truth for C10 (DESIGN §4, representation-free): a rule-respecting sequence of leaves of
// class text / separator / tree wildcard, where the i-th tree wildcard matches k_i complete
// components, matches canonical paths with `#maximal text runs + sum k_i` components.
use super::*;
use crate::token::variance::invariant::{Finalize, SeparatedTerm, Termination};
use crate::token::variance::natural::verif_kani_natural::{mem, mem_nr};
use crate::token::variance::{self, TokenVariance, Variance};
use crate::verif_prelude::*;

type TV = TokenVariance<Depth>;
type ST = SeparatedTerm<TV>;

// leaf kinds, enumerated completely: 0 literal, 1 `?`, 2 `*`, 3 `$`, 4 class, 5 separator,
// 6 tree wildcard, 7 rooted tree wildcard
const KINDS: u8 = 8;
fn leaf(k: u8) -> LeafKind<'static> {
    match k {
        0 => LeafKind::Literal(Literal { text: Cow::Borrowed("a"), is_case_insensitive: false }),
        1 => LeafKind::Wildcard(Wildcard::One),
        2 => LeafKind::Wildcard(Wildcard::ZeroOrMore(Evaluation::Eager)),
        3 => LeafKind::Wildcard(Wildcard::ZeroOrMore(Evaluation::Lazy)),
        4 => LeafKind::Class(Class { is_negated: false, archetypes: Vec::new() }),
        5 => LeafKind::Separator(Separator),
        6 => LeafKind::Wildcard(Wildcard::Tree { has_root: false }),
        _ => LeafKind::Wildcard(Wildcard::Tree { has_root: true }),
    }
}
// class of a leaf for the ground truth: 0 text, 1 separator, 2 tree wildcard
fn class_of(k: u8) -> u8 {
    match k {
        0..=4 => 0,
        5 => 1,
        _ => 2,
    }
}
// the REAL depth term of each leaf kind, unwrapped to its SeparatedTerm inside each arm (values of
// type TreeTerm must never be merged symbolically: the Disjunctive variant holds a HashSet)
fn real_leaf_term(k: u8) -> ST {
    fn unwrap_st(t: InvariantTerm<Depth>) -> ST {
        match t {
            Composition::Conjunctive(s) => s,
            Composition::Disjunctive(_) => panic!("leaf depth term is not conjunctive"),
        }
    }
    match k {
        0 => unwrap_st(variance::term::<Depth>(&leaf(0))),
        1 => unwrap_st(variance::term::<Depth>(&leaf(1))),
        2 => unwrap_st(variance::term::<Depth>(&leaf(2))),
        3 => unwrap_st(variance::term::<Depth>(&leaf(3))),
        4 => unwrap_st(variance::term::<Depth>(&leaf(4))),
        5 => unwrap_st(variance::term::<Depth>(&leaf(5))),
        6 => unwrap_st(variance::term::<Depth>(&leaf(6))),
        _ => unwrap_st(variance::term::<Depth>(&leaf(7))),
    }
}

const KMAX: usize = 1usize << 20;

// Ground truth of a leaf sequence; None if the sequence violates the boundary-adjacency rule (T6).
fn ground_truth<const N: usize>(ks: &[u8; N], ms: &[usize; N]) -> Option<u128> {
    let mut expected: u128 = 0;
    let mut prev: u8 = 9;
    let mut i = 0;
    while i < N {
        if ks[i] >= KINDS {
            return None;
        }
        let c = class_of(ks[i]);
        // no two component boundaries (separator / tree wildcard) are adjacent
        if prev != 9 && prev != 0 && c != 0 {
            return None;
        }
        // a rooted tree wildcard only occurs first
        if ks[i] == 7 && i != 0 {
            return None;
        }
        if c == 0 && prev != 0 {
            expected += 1;
        }
        if c == 2 {
            if ms[i] > KMAX {
                return None;
            }
            expected += ms[i] as u128;
        }
        prev = c;
        i += 1;
    }
    // canonical paths have no trailing separator (unless the path is the root itself)
    if N > 1 && prev == 1 {
        return None;
    }
    Some(expected)
}

// Region of the known finding C10.bracket-before-tree at one conjunction node L x R of a bracketing,
// L = ks[l_lo..=l_hi], R = ks[r_lo..=r_hi]: R is a bracket (an alternation branch or repetition body)
// of >= 2 leaves that begins with text and ends with a tree wildcard -- its leading text run is
// finalised on its own (+1 component) -- while L either ends in text (the run continues a component
// of L: `**/a{b/**}`) or is a separator-closed prefix that begins with the root separator (`/{a/**}`,
// `/x/{y/**}`).
fn bad_node<const N: usize>(ks: &[u8; N], l_lo: usize, l_hi: usize, r_lo: usize, r_hi: usize) -> bool {
    r_hi > r_lo
        && class_of(ks[r_hi]) == 2
        && class_of(ks[r_lo]) == 0
        && (class_of(ks[l_hi]) == 0 || (l_lo == 0 && class_of(ks[0]) == 1 && class_of(ks[l_hi]) == 1))
}

fn cj(a: ST, b: ST) -> ST {
    ops::conjunction(a, b)
}

//@ob C10.leaf.depth
//@ props: C10
//@ kind: complete
//@ fns: src/token/mod.rs::Separator::term<Depth> src/token/mod.rs::Wildcard::term<Depth> src/token/mod.rs::Literal::term<Depth> src/token/mod.rs::Class::term<Depth> src/token/mod.rs::LeafKind::term src/token/variance/invariant/mod.rs::SeparatedTerm::finalize
//@ pre: any leaf kind (all eight enumerated), any multiplicity k <= 2^20 for a tree wildcard
//@ post: the real depth term of the leaf is conjunctive and, finalised alone, contains the ground truth of that leaf: separator alone = the root = 0 components, text = 1, tree wildcard = k
fn ob_c10_leaf_depth(k: u8, m: usize) {
    vassume!(k < KINDS && m <= KMAX);
    let v = real_leaf_term(k).finalize();
    let expected: u128 = match class_of(k) {
        0 => 1,
        1 => 0,
        _ => m as u128,
    };
    vcover!(k == 5);
    vcover!(k == 7 && m == 3);
    assert!(mem(&v, expected), "C10 depth of a single leaf");
}

//@ob C10.seq.len2
//@ props: C10
//@ kind: bounded(leaf sequences of length 2; every leaf kind, every tree-wildcard multiplicity <= 2^20 symbolic)
//@ unwind: 4
//@ fns: src/token/variance/invariant/term.rs::SeparatedTerm::conjunction src/token/variance/invariant/term.rs::Termination::conjunction src/token/variance/invariant/mod.rs::SeparatedTerm::finalize src/token/variance/mod.rs::TokenVariance::conjunction
//@ pre: rule-respecting sequence of 2 leaves (no adjacent boundaries), multiplicities k_i
//@ post: #text runs + sum k_i is in the finalised conjunction of the real leaf terms
fn ob_c10_seq_len2(ks: [u8; 2], ms: [usize; 2]) {
    let gt = ground_truth(&ks, &ms);
    vassume!(gt.is_some());
    let t = [real_leaf_term(ks[0]), real_leaf_term(ks[1])];
    vcover!(ks[0] == 5 && ks[1] == 0);
    vcover!(ks[0] == 0 && ks[1] == 6 && ms[1] == 2);
    let v = cj(t[0], t[1]).finalize();
    assert!(mem(&v, gt.unwrap()), "C10 component count of a leaf sequence");
}

fn seq3(ks: [u8; 3], ms: [usize; 3], right: bool) {
    let gt = ground_truth(&ks, &ms);
    vassume!(gt.is_some());
    let t = [real_leaf_term(ks[0]), real_leaf_term(ks[1]), real_leaf_term(ks[2])];
    vcover!(ks[0] == 0 && ks[1] == 6 && ks[2] == 0);
    vcover!(ks[0] == 0 && ks[1] == 5 && ks[2] == 2);
    let v = if right { cj(t[0], cj(t[1], t[2])) } else { cj(cj(t[0], t[1]), t[2]) }.finalize();
    assert!(mem(&v, gt.unwrap()), "C10 component count of a leaf sequence");
}

//@ob C10.seq.len3.left
//@ props: C10
//@ kind: bounded(leaf sequences of length 3, bracketing ((0 1) 2); every leaf kind, multiplicities <= 2^20 symbolic)
//@ unwind: 5
//@ fns: src/token/variance/invariant/term.rs::SeparatedTerm::conjunction src/token/variance/invariant/term.rs::Termination::conjunction src/token/variance/invariant/mod.rs::SeparatedTerm::finalize
//@ pre: rule-respecting sequence of 3 leaves
//@ post: #text runs + sum k_i is in the finalised conjunction (left-nested = a flat concatenation)
fn ob_c10_seq_len3_left(ks: [u8; 3], ms: [usize; 3]) {
    seq3(ks, ms, false)
}

//@ob C10.seq.len3.right
//@ props: C10
//@ kind: bounded(leaf sequences of length 3, bracketing (0 (1 2)); every leaf kind, multiplicities <= 2^20 symbolic)
//@ unwind: 5
//@ fns: src/token/variance/invariant/term.rs::SeparatedTerm::conjunction src/token/variance/invariant/term.rs::Termination::conjunction src/token/variance/invariant/mod.rs::SeparatedTerm::finalize
//@ pre: rule-respecting sequence of 3 leaves; the bracket (1 2) is what an alternation branch or repetition body is to the fold
//@ post: #text runs + sum k_i is in the finalised conjunction
fn ob_c10_seq_len3_right(ks: [u8; 3], ms: [usize; 3]) {
    seq3(ks, ms, true)
}
fn region_c10_bracket_before_tree_3_right(ks: [u8; 3], _ms: [usize; 3]) -> bool {
    ks[0] < KINDS && ks[1] < KINDS && ks[2] < KINDS && bad_node(&ks, 0, 0, 1, 2)
}

fn seq4(ks: [u8; 4], ms: [usize; 4], shape: u8) {
    let gt = ground_truth(&ks, &ms);
    vassume!(gt.is_some());
    let t = [real_leaf_term(ks[0]), real_leaf_term(ks[1]), real_leaf_term(ks[2]), real_leaf_term(ks[3])];
    vcover!(ks[0] == 0 && ks[1] == 6 && ks[2] == 0 && ks[3] == 2);
    vcover!(ks[0] == 6 && ks[1] == 2 && ks[2] == 5 && ks[3] == 4);
    let v = match shape {
        0 => cj(cj(cj(t[0], t[1]), t[2]), t[3]),
        1 => cj(t[0], cj(t[1], cj(t[2], t[3]))),
        2 => cj(cj(t[0], t[1]), cj(t[2], t[3])),
        3 => cj(cj(t[0], cj(t[1], t[2])), t[3]),
        _ => cj(t[0], cj(cj(t[1], t[2]), t[3])),
    }
    .finalize();
    assert!(mem(&v, gt.unwrap()), "C10 component count of a leaf sequence");
}
fn in_kinds4(ks: &[u8; 4]) -> bool {
    ks[0] < KINDS && ks[1] < KINDS && ks[2] < KINDS && ks[3] < KINDS
}
fn region_c10_bracket_before_tree_4_right(ks: [u8; 4], _ms: [usize; 4]) -> bool {
    in_kinds4(&ks) && (bad_node(&ks, 0, 0, 1, 3) || bad_node(&ks, 1, 1, 2, 3))
}
fn region_c10_bracket_before_tree_4_balanced(ks: [u8; 4], _ms: [usize; 4]) -> bool {
    in_kinds4(&ks) && bad_node(&ks, 0, 1, 2, 3)
}
fn region_c10_bracket_before_tree_4_inner_right(ks: [u8; 4], _ms: [usize; 4]) -> bool {
    in_kinds4(&ks) && bad_node(&ks, 0, 0, 1, 2)
}
fn region_c10_bracket_before_tree_4_inner_left(ks: [u8; 4], _ms: [usize; 4]) -> bool {
    in_kinds4(&ks) && bad_node(&ks, 0, 0, 1, 3)
}

//@ob C10.seq.len4.left
//@ props: C10
//@ kind: bounded(leaf sequences of length 4, bracketing (((0 1) 2) 3))
//@ unwind: 6
//@ fns: src/token/variance/invariant/term.rs::SeparatedTerm::conjunction src/token/variance/invariant/term.rs::Termination::conjunction src/token/variance/invariant/mod.rs::SeparatedTerm::finalize
//@ pre: rule-respecting sequence of 4 leaves
//@ post: #text runs + sum k_i is in the finalised conjunction
fn ob_c10_seq_len4_left(ks: [u8; 4], ms: [usize; 4]) {
    seq4(ks, ms, 0)
}
//@ob C10.seq.len4.right
//@ props: C10
//@ kind: bounded(leaf sequences of length 4, bracketing (0 (1 (2 3))))
//@ unwind: 6
//@ fns: src/token/variance/invariant/term.rs::SeparatedTerm::conjunction src/token/variance/invariant/term.rs::Termination::conjunction src/token/variance/invariant/mod.rs::SeparatedTerm::finalize
//@ pre: rule-respecting sequence of 4 leaves
//@ post: #text runs + sum k_i is in the finalised conjunction
fn ob_c10_seq_len4_right(ks: [u8; 4], ms: [usize; 4]) {
    seq4(ks, ms, 1)
}
//@ob C10.seq.len4.balanced
//@ props: C10
//@ kind: bounded(leaf sequences of length 4, bracketing ((0 1) (2 3)))
//@ tier: thorough
//@ unwind: 6
//@ fns: src/token/variance/invariant/term.rs::SeparatedTerm::conjunction
//@ pre: rule-respecting sequence of 4 leaves
//@ post: #text runs + sum k_i is in the finalised conjunction
fn ob_c10_seq_len4_balanced(ks: [u8; 4], ms: [usize; 4]) {
    seq4(ks, ms, 2)
}
//@ob C10.seq.len4.inner_right
//@ props: C10
//@ kind: bounded(leaf sequences of length 4, bracketing ((0 (1 2)) 3))
//@ tier: thorough
//@ unwind: 6
//@ fns: src/token/variance/invariant/term.rs::SeparatedTerm::conjunction
//@ pre: rule-respecting sequence of 4 leaves
//@ post: #text runs + sum k_i is in the finalised conjunction
fn ob_c10_seq_len4_inner_right(ks: [u8; 4], ms: [usize; 4]) {
    seq4(ks, ms, 3)
}
//@ob C10.seq.len4.inner_left
//@ props: C10
//@ kind: bounded(leaf sequences of length 4, bracketing (0 ((1 2) 3)))
//@ tier: thorough
//@ unwind: 6
//@ fns: src/token/variance/invariant/term.rs::SeparatedTerm::conjunction
//@ pre: rule-respecting sequence of 4 leaves
//@ post: #text runs + sum k_i is in the finalised conjunction
fn ob_c10_seq_len4_inner_left(ks: [u8; 4], ms: [usize; 4]) {
    seq4(ks, ms, 4)
}

//@ob C10.token.canary
//@ props: C10
//@ kind: canary
//@ fns: -
//@ pre: none
//@ post: must FAIL
fn ob_c10_token_canary(k: u8) {
    vassume!(k < KINDS);
    let v = real_leaf_term(k).finalize();
    assert!(mem(&v, 1), "canary");
}
