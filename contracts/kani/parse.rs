// Contracts for src/token/parse.rs (C17 parse-error span; C18 character lists are extracted by the
// tool, not here). Injected as a child module of `token::parse` (ErrorEntry's fields are private).
use super::*;
use crate::verif_prelude::*;

//@ob C17.parse.error-span
//@ props: C17 C05
//@ kind: bounded(the remaining fragment has 0, 1 or 2 characters, each any Unicode scalar value; the span only depends on the first character)
//@ fns: src/token/parse.rs::ErrorEntry::span
//@ pre: an ErrorEntry as its only constructor From<(Input, kind)> builds it: `fragment` is the rest of the expression from byte offset `location` (so `location` is a character boundary and location + fragment.len() is the expression length)
//@ post: span() = (location, n) with n <= fragment.len() and fragment.is_char_boundary(n): the span lies within the expression and ends on a character boundary, so `&expression[location..][..n]` never panics
fn ob_c17_parse_error_span(nchars: u8, c1: char, c2: char, location: usize) {
    vassume!(nchars <= 2);
    let mut fragment = String::new();
    if nchars >= 1 {
        fragment.push(c1);
    }
    if nchars >= 2 {
        fragment.push(c2);
    }
    vcover!(nchars == 0);
    vcover!(nchars == 2 && c1.len_utf8() == 3);
    let entry = ErrorEntry { fragment: Cow::Owned(fragment.clone()), location, kind: NomErrorKind::Context("verif") };
    let (start, n) = LocatedError::span(&entry);
    assert!(start == location, "C17 parse error span starts at the error location");
    assert!(n <= fragment.len(), "C17 parse error span lies within the expression");
    assert!(fragment.is_char_boundary(n), "C17 parse error span ends on a character boundary");
}

// The parser's own adjacency rule for zero-or-more wildcards inside one concatenation (rule.rs only
// checks the edges of branches): the look-ahead sets are re-extracted from `fn wildcard` on every run.
//@extract parser_zom_lookahead

//@ob C06.parse.zom-lookahead
//@ props: C06
//@ kind: complete
//@ fns: src/token/parse.rs::parse::wildcard
//@ pre: any character; the spellings of the zero-or-more wildcards and the `is_not("..")` look-ahead set of each zero-or-more arm, as written in fn wildcard on this run
//@ post: every spelling of a zero-or-more wildcard is in the look-ahead exclusion set of EVERY zero-or-more arm: neither `**`-free pair (`*$`, `$*`, `$$`, `*` before a lone `*`) can be parsed as two adjacent zero-or-more wildcards (assumed: nom's `is_not` / `peek` / `terminated` semantics, T4)
fn ob_c06_parse_zom_lookahead(c: char) {
    vcover!(c == '$');
    vcover!(c == '*');
    assert!(ZOM_ARMS >= 2, "C06 both zero-or-more spellings have an arm");
    assert!(!zom_tag_contains(c) || zom_every_arm_excludes(c), "C06 no zero-or-more wildcard may directly follow another one");
}

//@ob C17.parse.canary
//@ props: C17
//@ kind: canary
//@ fns: -
//@ pre: none
//@ post: must FAIL
fn ob_c17_parse_canary(location: usize) {
    let entry = ErrorEntry { fragment: Cow::Borrowed("ab"), location, kind: NomErrorKind::Context("verif") };
    let _ = LocatedError::span(&entry);
    assert!(location != 5, "canary");
}
