// Contracts for src/token/walk.rs: the sequencers that decide WHICH children of a branch a fold or a
// walk visits (C12 has_root and C06 rule checks use Starting / Ending; C09 uses the exhaustiveness
// sequencer of src/token/variance/mod.rs, which is stated here because only a child module of
// `token::walk` can build a `ParentToken`). Injected as a child module of `token::walk`.
use super::*;
use crate::token::variance::TreeExhaustiveness;
use crate::token::verif_kani_token::{leaf_token, mk_branch};
use crate::token::BranchKind;
use crate::verif_prelude::*;

// 0 Forward, 1 Starting, 2 Ending: the REAL enqueue on a branch of kind `bk` with `n` children; both
// constants at every call site. Returns through assertions only.
fn seq_case(which: u8, bk: u8, n: usize) {
    let branch: BranchKind<'static, ()> = mk_branch(bk, n, 1, None);
    let kids: &[Token<'static, ()>] = branch.tokens().into_inner();
    let conjunctive = bk != 0;
    // expected index range [from, to) of the children that are visited, in order
    let (from, to) = match which {
        0 => (0, kids.len()),
        1 => (0, if conjunctive { 1 } else { kids.len() }),
        _ => (if conjunctive { kids.len() - 1 } else { 0 }, kids.len()),
    };
    let mut i = from;
    match which {
        0 => {
            let mut seq = Forward;
            let mut it = seq.enqueue(Parent(&branch));
            while i < to {
                match it.next() {
                    Some(c) => assert!(core::ptr::eq(*c.as_ref(), &kids[i]), "Forward visits every child in order"),
                    None => assert!(false, "Forward drops no child"),
                }
                i += 1;
            }
            assert!(it.next().is_none(), "Forward invents no child");
        },
        1 => {
            let mut seq = Starting;
            let mut it = seq.enqueue(Parent(&branch));
            while i < to {
                match it.next() {
                    Some(c) => assert!(core::ptr::eq(*c.as_ref(), &kids[i]), "C12/C06 Starting visits the first token of a concatenation / repetition body and every branch of an alternation"),
                    None => assert!(false, "C12/C06 Starting drops no starting token"),
                }
                i += 1;
            }
            assert!(it.next().is_none(), "C12/C06 only starting tokens are visited");
        },
        _ => {
            let mut seq = Ending;
            let mut it = seq.enqueue(Parent(&branch));
            while i < to {
                match it.next() {
                    Some(c) => assert!(core::ptr::eq(*c.as_ref(), &kids[i]), "C06 Ending visits the last token of a concatenation / repetition body and every branch of an alternation"),
                    None => assert!(false, "C06 Ending drops no ending token"),
                }
                i += 1;
            }
            assert!(it.next().is_none(), "C06 only ending tokens are visited");
        },
    }
    core::mem::forget(branch);
}

//@ob C12.seq.starting-ending
//@ props: C12 C06 C05
//@ kind: bounded(branches with 1..=3 children; the sequencers index the child slice by position only)
//@ unwind: 5
//@ fns: src/token/walk.rs::Starting::enqueue src/token/walk.rs::Ending::enqueue src/token/walk.rs::Forward::enqueue src/token/walk.rs::ParentToken::into_tokens src/token/mod.rs::BranchKind::tokens src/token/mod.rs::BranchKind::composition
//@ pre: an alternation, a concatenation or a repetition with 1..=3 children
//@ post: the REAL sequencers visit, in order and by identity: Forward every child; Starting the first token of a concatenation / the body of a repetition and EVERY branch of an alternation; Ending the last token of a concatenation and every branch of an alternation -- so a rooting token behind the first position is never consulted and no alternative is skipped
fn ob_c12_seq_starting_ending(dummy: bool) {
    vcover!(dummy);
    seq_case(0, 0, 3);
    seq_case(0, 1, 2);
    seq_case(1, 0, 1);
    seq_case(1, 0, 2);
    seq_case(1, 0, 3);
    seq_case(1, 1, 1);
    seq_case(1, 1, 2);
    seq_case(1, 1, 3);
    seq_case(1, 2, 1);
    seq_case(2, 0, 1);
    seq_case(2, 0, 2);
    seq_case(2, 0, 3);
    seq_case(2, 1, 1);
    seq_case(2, 1, 2);
    seq_case(2, 1, 3);
    seq_case(2, 2, 1);
}

//@ob C12.tokenwalk.canary
//@ props: C12
//@ kind: canary
//@ fns: -
//@ pre: none
//@ post: must FAIL
fn ob_c12_tokenwalk_canary(k: u8) {
    let t = leaf_token(1);
    let _ = t.as_leaf().is_some();
    core::mem::forget(t);
    assert!(k != 3, "canary");
}
