// Contracts for src/diagnostics/mod.rs (C17, C05). Injected as a child module of `diagnostics`.
// `within(s, L)` := s.0 + s.1 <= L (the span lies inside an expression of L bytes).
use super::*;
use crate::verif_prelude::*;

const LMAX: usize = isize::MAX as usize; // no Rust string is longer

//@ob C17.union
//@ props: C17 C05
//@ kind: complete
//@ fns: src/diagnostics/mod.rs::SpanExt::union
//@ pre: two spans that lie within an expression of length L <= isize::MAX
//@ post: the union starts at the smaller start, ends at the larger end, lies within L and covers both spans; no overflow
fn ob_c17_union(a0: usize, a1: usize, b0: usize, b1: usize, len: usize) {
    vassume!(len <= LMAX);
    vassume!(a0 <= len && a1 <= len - a0);
    vassume!(b0 <= len && b1 <= len - b0);
    let (s, n) = (a0, a1).union((b0, b1));
    vcover!(a0 < b0 && a0 + a1 > b0 + b1);
    vcover!(a0 + a1 < b0);
    assert!(s == core::cmp::min(a0, b0), "C17 union starts at the smaller start");
    assert!(s + n == core::cmp::max(a0 + a1, b0 + b1), "C17 union ends at the larger end");
    assert!(s + n <= len, "C17 union lies within the expression");
    assert!(s <= a0 && s <= b0 && s + n >= a0 + a1 && s + n >= b0 + b1, "C17 union covers both spans");
}

//@ob C17.composite
//@ props: C17 C05
//@ kind: complete
//@ fns: src/diagnostics/mod.rs::CompositeSpan::span src/diagnostics/mod.rs::CompositeSpan::spanned src/diagnostics/mod.rs::CompositeSpan::correlated src/diagnostics/mod.rs::CorrelatedSpan::split_some src/diagnostics/mod.rs::Span::span_mut
//@ pre: any spans
//@ post: a composite span reports exactly the primary span it was built with, for both kinds; split_some keeps both spans / the right span; map_span applies the function to the stored span
fn ob_c17_composite(s0: usize, s1: usize, l0: usize, l1: usize, has_left: bool) {
    let c = CompositeSpan::spanned("x", (s0, s1));
    assert!(LocatedError::span(&c) == (s0, s1), "C17 rule error span is the stored span");
    let left = if has_left { Some((l0, l1)) } else { None };
    let corr = CorrelatedSpan::split_some(left, (s0, s1));
    match corr {
        CorrelatedSpan::Split(l, r) => assert!(has_left && l == (l0, l1) && r == (s0, s1), "C17 split_some keeps both spans"),
        CorrelatedSpan::Contiguous(r) => assert!(!has_left && r == (s0, s1), "C17 split_some keeps the right span"),
    }
    let c = CompositeSpan::correlated("x", (s0, s1), corr);
    assert!(LocatedError::span(&c) == (s0, s1), "C17 correlated rule error span is the stored primary span");
    let m = (s0, s1).map_span(|s| (s.1, s.0));
    assert!(m == (s1, s0) && *Spanned::span(&m) == (s1, s0));
}

//@ob C17.diagnostics.canary
//@ props: C17
//@ kind: canary
//@ fns: -
//@ pre: none
//@ post: must FAIL
fn ob_c17_diagnostics_canary(a: u8, b: u8) {
    let _ = (a as usize, 1usize).union((b as usize, 1usize));
    assert!(a != b, "canary");
}
