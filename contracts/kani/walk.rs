// Contracts for the combinators of src/walk/mod.rs (C13, C16, C20, C05). Injected as a child module
// of `walk` (needs the private fields of FilterEntry / WalkError / WalkErrorKind).
//
// The input is a mock `FileIterator` that feeds ONE item in any state: a filtrate Ok entry, a
// filtrate Err, node residue or tree residue (the last two are what a filter sees behind another
// filter that already discarded the entry). `cancels` counts `cancel_walk_tree` calls that reach it.
use super::*;
use crate::filter::{CancelWalk, Separation, SeparatingFilter, TreeResidue};
use crate::verif_prelude::*;

#[derive(Debug)]
pub(crate) struct MockEntry(pub u8);

impl Entry for MockEntry {
    fn into_path(self) -> PathBuf {
        PathBuf::new()
    }

    fn path(&self) -> &Path {
        Path::new("")
    }

    fn root_relative_paths(&self) -> (&Path, &Path) {
        (Path::new(""), Path::new(""))
    }

    fn metadata(&self) -> Result<Metadata, WalkError> {
        Err(mk_err(0))
    }

    fn file_type(&self) -> FileType {
        unimplemented!()
    }

    fn depth(&self) -> usize {
        self.0 as usize
    }
}

pub(crate) fn mk_err(x: u8) -> WalkError {
    WalkError {
        depth: x as usize,
        kind: WalkErrorKind::Io {
            path: None,
            error: io::Error::from(io::ErrorKind::Other),
        },
    }
}

pub(crate) type MockFeedT = (Result<MockEntry, WalkError>, TreeResidue<MockEntry>);

// state: 0 filtrate Ok, 1 node residue, 2 tree residue, 3 filtrate Err
pub(crate) struct MockFeed {
    pub state: u8,
    pub x: u8,
    pub done: bool,
    pub cancels: u32,
}
impl MockFeed {
    pub(crate) fn new(state: u8, x: u8) -> Self {
        MockFeed { state, x, done: false, cancels: 0 }
    }
}
impl CancelWalk for MockFeed {
    fn cancel_walk_tree(&mut self) {
        self.cancels += 1;
    }
}
impl SeparatingFilter for MockFeed {
    type Feed = MockFeedT;

    fn feed(&mut self) -> Option<Separation<Self::Feed>> {
        if self.done {
            return None;
        }
        self.done = true;
        let filtrate: Separation<Self::Feed> = crate::filter::Filtrate::new(Ok(MockEntry(self.x))).into();
        Some(match self.state {
            0 => filtrate,
            1 => filtrate.filter_map(|_| TreeResidue::Node(MockEntry(self.x))),
            2 => filtrate.filter_map(|_| TreeResidue::Tree(MockEntry(self.x))),
            _ => crate::filter::Filtrate::new(Err(mk_err(self.x))).into(),
        })
    }
}
impl Iterator for MockFeed {
    type Item = Result<MockEntry, WalkError>;

    fn next(&mut self) -> Option<Self::Item> {
        crate::filter::filtrate(self)
    }
}

pub(crate) fn entry_verdict(v: u8) -> Option<EntryResidue> {
    match v {
        0 => None,
        1 => Some(EntryResidue::File),
        _ => Some(EntryResidue::Tree),
    }
}

// observation of one fed item: kind 0 filtrate Ok, 1 node residue, 2 tree residue, 3 filtrate Err, 4 nothing fed
pub(crate) fn observe(out: Option<Separation<MockFeedT>>) -> (u8, u8) {
    match out {
        None => (4, 0),
        Some(Separation::Filtrate(f)) => match f.into_inner() {
            Ok(e) => (0, e.0),
            Err(e) => {
                assert!(e.path().is_none() && matches!(e.kind, WalkErrorKind::Io { .. }), "C20 error kind unchanged");
                (3, e.depth() as u8)
            },
        },
        Some(Separation::Residue(r)) => match r.into_inner() {
            TreeResidue::Node(e) => (1, e.0),
            TreeResidue::Tree(e) => (2, e.0),
        },
    }
}
fn max2(a: u8, b: u8) -> u8 {
    if a >= b { a } else { b }
}

//@ob C16.feed.FilterEntry
//@ props: C16 C13 C20 C15 C05
//@ kind: complete
//@ fns: src/walk/mod.rs::FilterEntry::feed src/walk/mod.rs::FilterEntry::cancel_walk_tree src/walk/mod.rs::FileIterator::filter_entry src/walk/mod.rs::TreeResidue::from<EntryResidue> src/filter.rs::Separation::filter_tree_by_substituent src/filter.rs::Separation::transpose_filtrate
//@ pre: one fed item in any state (filtrate Ok, node residue, tree residue, filtrate Err), any verdict of the user closure
//@ post: (C16) the closure is called exactly once for every item that is not an Err -- also for items already discarded upstream -- and sees that item; the outcome is the join max(state, verdict), payload preserved. (C13) the INPUT is cancelled exactly once iff the verdict is Tree and the item was not already tree residue, never for File / keep / Err. (C20) an Err item comes out as the same filtrate Err (depth, kind), the closure is not called, nothing is cancelled. One item in, one item out; then None.
fn ob_c16_feed_filter_entry(state: u8, x: u8, v: u8) {
    vassume!(state <= 3 && v <= 2);
    let mut calls = 0u32;
    let mut filter = MockFeed::new(state, x).filter_entry(|e| {
        calls += 1;
        assert!(e.depth() == x as usize, "C16 the filter observes the fed entry");
        entry_verdict(v)
    });
    let (kind, payload) = observe(filter.feed());
    let cancels = filter.input.cancels;
    vcover!(state == 0 && v == 2);
    vcover!(state == 1 && v == 2);
    vcover!(state == 3);
    vcover!(state == 2 && v == 0);
    assert!(payload == x, "C16/C20 one item in, the same item out");
    if state == 3 {
        assert!(kind == 3, "C20 an Err item passes through as filtrate Err");
        assert!(cancels == 0, "C20 an Err item cancels nothing");
    }
    else {
        assert!(kind == max2(state, v), "C16 outcome is the join of the upstream state and the verdict");
        assert!(cancels == if v == 2 && state != 2 { 1 } else { 0 }, "C13 the input is cancelled exactly once iff a tree verdict meets an entry that is not yet tree residue");
    }
    assert!(observe(filter.feed()).0 == 4, "C16 nothing is invented after the input is exhausted");
    filter.cancel_walk_tree();
    assert!(filter.input.cancels == cancels + 1, "C13 FilterEntry forwards cancellation to its input exactly once");
    drop(filter);
    assert!(calls == if state == 3 { 0 } else { 1 }, "C16 observed exactly once (C20: never for an Err item)");
}

//@ob C16.stack2.FilterEntry
//@ props: C16 C13 C20 C05
//@ kind: complete
//@ fns: src/walk/mod.rs::FilterEntry::feed src/walk/mod.rs::FilterEntry::next src/filter.rs::filtrate
//@ pre: two stacked FilterEntry over one fed item (filtrate Ok or Err), verdicts v1 (inner), v2 (outer) symbolic
//@ post: the item is yielded by next() iff it is an Err or both verdicts are keep; the input is cancelled [v1 = Tree or v2 = Tree] times (0 or 1, never 2); both closures observe a non-Err item exactly once -- the outer one also when the inner one discarded it; an Err is yielded unchanged and observed by nobody
fn ob_c16_stack2_filter_entry(is_err: bool, x: u8, v1: u8, v2: u8) {
    vassume!(v1 <= 2 && v2 <= 2);
    let mut calls1 = 0u32;
    let mut calls2 = 0u32;
    let mut filter = MockFeed::new(if is_err { 3 } else { 0 }, x)
        .filter_entry(|e| {
            calls1 += 1;
            assert!(e.depth() == x as usize);
            entry_verdict(v1)
        })
        .filter_entry(|e| {
            calls2 += 1;
            assert!(e.depth() == x as usize);
            entry_verdict(v2)
        });
    let got = filter.next();
    let cancels = filter.input.input.cancels;
    vcover!(!is_err && v1 == 2 && v2 == 2);
    vcover!(!is_err && v1 == 1 && v2 == 0);
    vcover!(is_err);
    match got {
        Some(Ok(e)) => assert!(!is_err && v1 == 0 && v2 == 0 && e.0 == x, "C16 yielded only if every layer keeps"),
        Some(Err(e)) => assert!(is_err && e.depth() == x as usize, "C20 the error is yielded unchanged"),
        None => assert!(!is_err && (v1 != 0 || v2 != 0), "C16 kept by every layer => yielded; C20 errors are never swallowed"),
    }
    assert!(cancels == if !is_err && (v1 == 2 || v2 == 2) { 1 } else { 0 }, "C13 cancelled once iff some layer says tree, never twice");
    drop(filter);
    assert!(calls1 == if is_err { 0 } else { 1 } && calls2 == calls1, "C16 every layer observes every non-Err entry exactly once");
}

//@ob C13.residue.from
//@ props: C13 C05
//@ kind: complete
//@ fns: src/walk/mod.rs::TreeResidue::from<EntryResidue>
//@ pre: both EntryResidue values
//@ post: File -> node residue (no cancellation downstream), Tree -> tree residue
fn ob_c13_residue_from(t: bool) {
    let r: TreeResidue<()> = if t { EntryResidue::Tree } else { EntryResidue::File }.into();
    assert!(matches!(r, TreeResidue::Tree(())) == t, "C13 EntryResidue maps to the residue of the same kind");
}

//@ob C20.error.path
//@ props: C20 C05
//@ kind: complete
//@ fns: src/walk/mod.rs::WalkError::path src/walk/mod.rs::WalkErrorKind::path src/walk/mod.rs::WalkError::depth
//@ pre: a walk error of either kind: an I/O fault with or without a path, or a link cycle with its ancestor (`root`) and the link that re-enters it (`leaf`); any depth
//@ post: path() names the OFFENDING path: the link itself for a cycle (never the healthy ancestor), the faulting path for an I/O error, None only for an I/O error without a path; depth() is the stored depth
fn ob_c20_error_path(kind: u8, depth: usize) {
    vassume!(kind <= 2);
    let (root, leaf) = (PathBuf::from("r"), PathBuf::from("l"));
    let (root_ptr, leaf_ptr) = (root.as_os_str().as_encoded_bytes().as_ptr(), leaf.as_os_str().as_encoded_bytes().as_ptr());
    let error = WalkError {
        depth,
        kind: match kind {
            0 => {
                core::mem::forget(root);
                core::mem::forget(leaf);
                WalkErrorKind::Io { path: None, error: io::Error::from(io::ErrorKind::Other) }
            },
            1 => {
                core::mem::forget(root);
                WalkErrorKind::Io { path: Some(leaf), error: io::Error::from(io::ErrorKind::Other) }
            },
            _ => WalkErrorKind::LinkCycle { root, leaf },
        },
    };
    vcover!(kind == 2);
    vcover!(kind == 0);
    match error.path() {
        None => assert!(kind == 0, "C20 only an I/O error without a path has no path"),
        Some(path) => {
            assert!(kind != 0, "C20 no path is invented");
            let ptr = path.as_os_str().as_encoded_bytes().as_ptr();
            assert!(core::ptr::eq(ptr, leaf_ptr), "C20 the error names the offending path (the link of a cycle, not its ancestor)");
            assert!(!core::ptr::eq(ptr, root_ptr), "C20 the healthy ancestor is not blamed");
        },
    }
    assert!(error.depth() == depth, "C20 the depth of the fault is reported as stored");
    core::mem::forget(error);
}

//@ob C13.walk.canary
//@ props: C13
//@ kind: canary
//@ fns: -
//@ pre: none
//@ post: must FAIL
fn ob_c13_walk_canary(v: u8) {
    vassume!(v <= 2);
    let mut filter = MockFeed::new(0, 0).filter_entry(|_| entry_verdict(v));
    let _ = filter.feed();
    assert!(v != 1, "canary");
}
