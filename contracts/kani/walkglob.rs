// Contracts for `Not` (src/walk/mod.rs) built with the only `FilterAnyProgram` that holds no
// compiled `Regex` (Empty). Injected as a child module of `walk::glob` (FilterAny's field is private
// there). `regex::Regex::is_match` is stubbed out: it is dynamically unreachable for the empty
// program but statically reachable, and regex-automata must stay out of the goto program.
use super::*;
use crate::filter::{CancelWalk, SeparatingFilter};
use crate::verif_prelude::*;
use crate::walk::verif_kani_walk::{observe, MockFeed};
use crate::walk::Not;

#[allow(dead_code)]
fn is_match_stub(_: &Regex, _: &str) -> bool {
    false
}

fn mk_not(state: u8, x: u8) -> Not<MockFeed> {
    Not {
        input: MockFeed::new(state, x),
        filter: FilterAny { program: FilterAnyProgram::Empty },
    }
}

//@ob C16.feed.Not.empty
//@ props: C16 C13 C20 C05
//@ kind: complete
//@ stub: regex::Regex::is_match=is_match_stub
//@ fns: src/walk/mod.rs::Not::feed src/walk/mod.rs::Not::cancel_walk_tree src/walk/glob.rs::FilterAny::residue src/walk/glob.rs::FilterAnyProgram::residue
//@ pre: a negation with the empty program (matches nothing), one fed item in any state (filtrate Ok, node residue, tree residue, filtrate Err)
//@ post: the item comes out in the same state with the same payload (an empty negation discards nothing and never resurrects or downgrades residue); an Err item comes out as the same filtrate Err; the input is never cancelled; cancel_walk_tree forwards exactly once
fn ob_c16_feed_not_empty(state: u8, x: u8) {
    vassume!(state <= 3);
    let mut not = mk_not(state, x);
    let (kind, payload) = observe(not.feed());
    vcover!(state == 3);
    vcover!(state == 2);
    assert!(kind == state, "C16 a negation that matches nothing keeps every state unchanged");
    assert!(payload == x, "C20/C16 same item out");
    assert!(not.input.cancels == 0, "C13 nothing is cancelled");
    assert!(observe(not.feed()).0 == 4);
    not.cancel_walk_tree();
    assert!(not.input.cancels == 1, "C13 Not forwards cancellation to its input exactly once");
}

//@ob C16.walkglob.canary
//@ props: C16
//@ kind: canary
//@ stub: regex::Regex::is_match=is_match_stub
//@ fns: -
//@ pre: none
//@ post: must FAIL
fn ob_c16_walkglob_canary(state: u8) {
    vassume!(state <= 3);
    let mut not = mk_not(state, 0);
    let _ = observe(not.feed());
    assert!(state != 1, "canary");
}
