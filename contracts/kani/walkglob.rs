// Contracts for `Not` (src/walk/mod.rs) built with the only `FilterAnyProgram` that holds no
// compiled `Regex` (Empty). Injected as a child module of `walk::glob` (FilterAny's field is private
// there). `regex::Regex::is_match` is stubbed out: it is dynamically unreachable for the empty
// program but statically reachable, and regex-automata must stay out of the goto program.
use super::*;
use crate::filter::{CancelWalk, SeparatingFilter};
use crate::verif_prelude::*;
use crate::walk::verif_kani_walk::{observe, MockFeed};
use crate::walk::Not;

#[allow(dead_code)]
fn is_match_stub(_: &Regex, _: &str) -> bool {
    false
}

fn mk_not(state: u8, x: u8) -> Not<MockFeed> {
    Not {
        input: MockFeed::new(state, x),
        filter: FilterAny { program: FilterAnyProgram::Empty },
    }
}

//@ob C16.feed.Not.empty
//@ props: C16 C13 C20 C15 C05
//@ kind: complete
//@ stub: regex::Regex::is_match=is_match_stub
//@ fns: src/walk/mod.rs::Not::feed src/walk/mod.rs::Not::cancel_walk_tree src/walk/glob.rs::FilterAny::residue src/walk/glob.rs::FilterAnyProgram::residue
//@ pre: a negation with the empty program (matches nothing), one fed item in any state (filtrate Ok, node residue, tree residue, filtrate Err)
//@ post: the item comes out in the same state with the same payload (an empty negation discards nothing and never resurrects or downgrades residue); an Err item comes out as the same filtrate Err; the input is never cancelled; cancel_walk_tree forwards exactly once
fn ob_c16_feed_not_empty(state: u8, x: u8) {
    vassume!(state <= 3);
    let mut not = mk_not(state, x);
    let (kind, payload) = observe(not.feed());
    vcover!(state == 3);
    vcover!(state == 2);
    assert!(kind == state, "C16 a negation that matches nothing keeps every state unchanged");
    assert!(payload == x, "C20/C16 same item out");
    assert!(not.input.cancels == 0, "C13 nothing is cancelled");
    assert!(observe(not.feed()).0 == 4);
    not.cancel_walk_tree();
    assert!(not.input.cancels == 1, "C13 Not forwards cancellation to its input exactly once");
}

// ---- negations with a NON-EMPTY program: the regex engine as an arbitrary oracle -----------------
//
// A `Regex` cannot be built inside the verifier (compiling one is far outside CBMC's reach), so the
// two programs are uninitialised placeholders that are never read: `regex::Regex::is_match` is
// replaced by an oracle that answers `ve` for the exhaustive program (recognised by address) and `vn`
// for the other one. Everything else -- FilterAnyProgram::residue, FilterAny::residue, Not::feed,
// Separation::filter_tree_by_substituent -- is the real code. Not replayable natively.
#[cfg(kani)]
mod oracle {
    pub static mut EXHAUSTIVE: *const regex::Regex = core::ptr::null();
    pub static mut V_EXHAUSTIVE: bool = false;
    pub static mut V_OTHER: bool = false;
    pub static mut CALLS: u32 = 0;
}
#[cfg(kani)]
fn is_match_oracle(re: &Regex, _: &str) -> bool {
    // SAFETY: single-threaded verifier-only state.
    unsafe {
        oracle::CALLS += 1;
        if core::ptr::eq(re, oracle::EXHAUSTIVE) { oracle::V_EXHAUSTIVE } else { oracle::V_OTHER }
    }
}
#[cfg(not(kani))]
fn is_match_oracle(_: &Regex, _: &str) -> bool {
    unimplemented!("verifier-only")
}

// kind: 0 Empty, 1 Exhaustive, 2 Nonexhaustive, 3 Partitioned
#[cfg(kani)]
fn mk_program(kind: u8, ve: bool, vn: bool) -> FilterAnyProgram {
    // SAFETY: the placeholders are never read (is_match is stubbed) and never dropped (forgotten).
    let placeholder = || unsafe { core::mem::MaybeUninit::<Regex>::uninit().assume_init() };
    let program = match kind {
        0 => FilterAnyProgram::Empty,
        1 => FilterAnyProgram::Exhaustive(placeholder()),
        2 => FilterAnyProgram::Nonexhaustive(placeholder()),
        _ => FilterAnyProgram::Partitioned { exhaustive: placeholder(), nonexhaustive: placeholder() },
    };
    program
}
#[cfg(kani)]
fn arm_oracle(program: &FilterAnyProgram, ve: bool, vn: bool) {
    // SAFETY: single-threaded verifier-only state.
    unsafe {
        oracle::EXHAUSTIVE = match program {
            FilterAnyProgram::Exhaustive(ref exhaustive) | FilterAnyProgram::Partitioned { ref exhaustive, .. } => exhaustive as *const Regex,
            _ => core::ptr::null(),
        };
        oracle::V_EXHAUSTIVE = ve;
        oracle::V_OTHER = vn;
        oracle::CALLS = 0;
    }
}
#[cfg(not(kani))]
fn mk_program(_: u8, _: bool, _: bool) -> FilterAnyProgram {
    FilterAnyProgram::Empty
}
#[cfg(not(kani))]
fn arm_oracle(_: &FilterAnyProgram, _: bool, _: bool) {}

// the verdict the documentation assigns: a tree discard only if the EXHAUSTIVE program matches
fn spec_verdict(kind: u8, ve: bool, vn: bool) -> u8 {
    let has_exhaustive = kind == 1 || kind == 3;
    let has_other = kind == 2 || kind == 3;
    if has_exhaustive && ve {
        2
    }
    else if has_other && vn {
        1
    }
    else {
        0
    }
}

//@ob C13.not.residue
//@ props: C13 C05
//@ kind: complete
//@ replay: none
//@ unwind: 4
//@ stub: regex::Regex::is_match=is_match_oracle
//@ fns: src/walk/glob.rs::FilterAnyProgram::residue
//@ pre: any of the four program shapes (Empty, Exhaustive, Nonexhaustive, Partitioned); the regex engine answers arbitrarily (ve for the exhaustive program, vn for the non-exhaustive one)
//@ post: the residue is Tree exactly when there is an exhaustive program and IT matches -- a match of the non-exhaustive program alone never discards a tree (its descendants need not match) --, File exactly when not Tree and the non-exhaustive program matches, None otherwise
fn ob_c13_not_residue(kind: u8, ve: bool, vn: bool) {
    vassume!(kind <= 3);
    let program = mk_program(kind, ve, vn);
    arm_oracle(&program, ve, vn);
    vcover!(kind == 3 && !ve && vn);
    vcover!(kind == 2 && vn);
    let residue = program.residue(CandidatePath::from(Path::new("")));
    core::mem::forget(program);
    let got = match residue {
        None => 0,
        Some(EntryResidue::File) => 1,
        Some(EntryResidue::Tree) => 2,
    };
    assert!(got == spec_verdict(kind, ve, vn), "C13 only a match of the exhaustive program discards a tree");
}

//@ob C13.feed.Not.oracle
//@ props: C13 C16 C20 C05
//@ kind: complete
//@ replay: none
//@ unwind: 4
//@ stub: regex::Regex::is_match=is_match_oracle
//@ fns: src/walk/mod.rs::Not::feed src/walk/glob.rs::FilterAny::residue src/walk/glob.rs::FilterAnyProgram::residue src/filter.rs::Separation::filter_tree_by_substituent
//@ pre: a negation with any program shape and any oracle answers; one fed item in any state (filtrate Ok, node residue, tree residue, filtrate Err)
//@ post: the outcome is the join max(state, verdict) with the payload preserved; the INPUT is cancelled exactly once iff the verdict is Tree (the exhaustive program matched) and the item was not already tree residue; an Err item passes through unchanged without consulting any program and without cancelling
fn ob_c13_feed_not_oracle(state: u8, x: u8, kind: u8, ve: bool, vn: bool) {
    vassume!(state <= 3 && kind <= 3);
    let program = mk_program(kind, ve, vn);
    let mut not = Not { input: MockFeed::new(state, x), filter: FilterAny { program } };
    arm_oracle(&not.filter.program, ve, vn);
    vcover!(state == 0 && kind == 3 && ve);
    vcover!(state == 1 && kind == 1 && ve);
    vcover!(state == 3 && kind == 3);
    let (out, payload) = observe(not.feed());
    let cancels = not.input.cancels;
    let verdict = spec_verdict(kind, ve, vn);
    assert!(payload == x, "C16/C20 same item out");
    if state == 3 {
        assert!(out == 3 && cancels == 0, "C20 an Err item passes through, nothing is cancelled");
        #[cfg(kani)]
        assert!(unsafe { oracle::CALLS } == 0, "C20 an Err item is not matched against the negation");
    }
    else {
        assert!(out == if state >= verdict { state } else { verdict }, "C16 outcome is the join of the upstream state and the verdict");
        assert!(cancels == if verdict == 2 && state != 2 { 1 } else { 0 }, "C13 the input is cancelled exactly once iff the exhaustive program matched an entry that is not yet tree residue");
    }
    core::mem::forget(not);
}

//@ob C16.walkglob.canary
//@ props: C16
//@ kind: canary
//@ stub: regex::Regex::is_match=is_match_stub
//@ fns: -
//@ pre: none
//@ post: must FAIL
fn ob_c16_walkglob_canary(state: u8) {
    vassume!(state <= 3);
    let mut not = mk_not(state, 0);
    let _ = observe(not.feed());
    assert!(state != 1, "canary");
}
