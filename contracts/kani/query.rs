// Contracts for src/query.rs: the trivalent `When` operators (C09, C12), public range views (C10),
// CapturingToken (C17). Injected as a child module of `query`.
//
// Reading of `When` as an interval over {false, true} (DESIGN §4): Always = [1,1], Never = [0,0],
// Sometimes = [0,1]. `lo(w)` = can it be false? no -> 1; `hi(w)` = can it be true? yes -> 1.
use super::*;
use crate::verif_prelude::*;

fn mk_when(k: u8) -> When {
    match k {
        0 => When::Never,
        1 => When::Sometimes,
        _ => When::Always,
    }
}
fn lo(w: When) -> u8 {
    if matches!(w, When::Always) { 1 } else { 0 }
}
fn hi(w: When) -> u8 {
    if matches!(w, When::Never) { 0 } else { 1 }
}
fn min2(a: u8, b: u8) -> u8 {
    if a <= b { a } else { b }
}
fn max2(a: u8, b: u8) -> u8 {
    if a >= b { a } else { b }
}

//@ob C12.when.ops
//@ props: C12 C09 C05
//@ kind: complete
//@ fns: src/query.rs::When::and src/query.rs::When::or src/query.rs::When::certainty src/query.rs::When::is_always src/query.rs::When::is_sometimes src/query.rs::When::is_never src/query.rs::When::is_maybe_true src/query.rs::When::is_maybe_false
//@ pre: any two When values
//@ post: `and` / `or` are the Kleene operators on the interval reading (min / max of both ends), so and(x, Sometimes) is never Always (an optional sub-expression cannot make a pattern always rooted); `certainty` is Always only if both are Always and Never only if both are Never (one non-exhaustive alternative can never be averaged away); the is_* predicates agree with the reading
fn ob_c12_when_ops(a: u8, b: u8) {
    vassume!(a <= 2 && b <= 2);
    let (x, y) = (mk_when(a), mk_when(b));
    vcover!(a == 2 && b == 1);
    let r = x.and(y);
    assert!(lo(r) == min2(lo(x), lo(y)) && hi(r) == min2(hi(x), hi(y)), "C12 and = Kleene conjunction");
    let r = x.or(y);
    assert!(lo(r) == max2(lo(x), lo(y)) && hi(r) == max2(hi(x), hi(y)), "C12 or = Kleene disjunction");
    let r = x.certainty(y);
    assert!(r.is_always() == (x.is_always() && y.is_always()), "C09 certainty is Always only if both are Always");
    assert!(r.is_never() == (x.is_never() && y.is_never()), "C09 certainty is Never only if both are Never");
    assert!(x.is_always() == (a == 2) && x.is_never() == (a == 0) && x.is_sometimes() == (a == 1));
    assert!(x.is_maybe_true() == (hi(x) == 1) && x.is_maybe_false() == (lo(x) == 0), "C12 is_maybe_* agree with the interval reading");
}

//@ob C12.when.from
//@ props: C12 C09 C05
//@ kind: complete
//@ fns: src/query.rs::When::from<bool> src/query.rs::When::from<Option<bool>> src/query.rs::Option<bool>::from<When>
//@ pre: any bool / Option<bool> / When
//@ post: true -> Always, false -> Never (never Sometimes); Option<bool> <-> When is a bijection with None <-> Sometimes
fn ob_c12_when_from(b: bool, has: bool, k: u8) {
    vassume!(k <= 2);
    let w = When::from(b);
    assert!(w.is_always() == b && w.is_never() == !b, "C12 a definite answer is never Sometimes");
    let o = if has { Some(b) } else { None };
    let w = When::from(o);
    assert!(w.is_sometimes() == !has && (!has || w.is_always() == b), "C12 None <-> Sometimes");
    assert!(Option::<bool>::from(w) == o, "C12 round trip");
    assert!(When::from(Option::<bool>::from(mk_when(k))) == mk_when(k), "C12 round trip");
}

//@ob C10.query.public-view
//@ props: C10 C05
//@ kind: complete
//@ fns: src/query.rs::DepthVariance::from src/query.rs::BoundedVariantRange::from src/query.rs::VariantRange::from src/query.rs::VariantRange::lower src/query.rs::VariantRange::upper src/query.rs::BoundedVariantRange::lower src/query.rs::BoundedVariantRange::upper src/token/variance/natural.rs::BoundedVariantRange::lower src/token/variance/natural.rs::BoundedVariantRange::upper src/token/variance/natural.rs::BoundedVariantRange::upper_from_lower_extent
//@ pre: any well-formed internal depth variance (lower + extent representable), any natural x
//@ post: the public DepthVariance denotes the same set of depths as the internal one: Invariant(n) <-> x = n; Variant: lower <= x (if bounded) and x <= upper (if bounded) <=> x in gamma(internal)
fn ob_c10_query_public_view(k: u8, a: usize, b: usize, x: usize) {
    use crate::token::verif_kani_token::vnat::{mem, mk_tv, valid_tv, TV};
    vassume!(k <= 4 && valid_tv(k, a, b));
    let internal: TV = mk_tv(k, a, b);
    let public = DepthVariance::from(internal);
    vcover!(k == 4);
    vcover!(k == 1);
    let inside = match public {
        Variance::Invariant(n) => x == n,
        Variance::Variant(range) => {
            range.lower().bounded().map_or(true, |l| l.get() <= x) && range.upper().bounded().map_or(true, |u| x <= u.get())
        },
    };
    assert!(inside == mem(&internal, x as u128), "C10 the public depth variance denotes the internal one");
    assert!(public.is_invariant() == (k == 0));
}

//@ob C17.query.capturing-token
//@ props: C17 C05
//@ kind: complete
//@ fns: src/query.rs::CapturingToken::new src/query.rs::CapturingToken::index src/query.rs::CapturingToken::span
//@ pre: any index and span
//@ post: a capturing token reports exactly the index and span it was built with
fn ob_c17_query_capturing_token(index: usize, s0: usize, s1: usize) {
    let t = CapturingToken::new(index, (s0, s1));
    assert!(t.index() == index && t.span() == (s0, s1), "C17 capture span is the stored token span");
}

// ---- attribute contracts on When (inject.json), proved with proof_for_contract -------------------

//@ob C12.contract.when.and
//@ props: C12
//@ kind: complete
//@ contract: When::and
//@ fns: src/query.rs::When::and
//@ pre: none
//@ post: [attribute contract] Always iff both are Always; Never iff one is Never
fn ob_c12_contract_when_and(a: u8, b: u8) {
    vassume!(a <= 2 && b <= 2);
    let r = mk_when(a).and(mk_when(b));
    vreplay_assert!(r.is_always() == (a == 2 && b == 2) && r.is_never() == (a == 0 || b == 0), "C12 contract of When::and");
}

//@ob C12.contract.when.or
//@ props: C12
//@ kind: complete
//@ contract: When::or
//@ fns: src/query.rs::When::or
//@ pre: none
//@ post: [attribute contract] Always iff one is Always; Never iff both are Never
fn ob_c12_contract_when_or(a: u8, b: u8) {
    vassume!(a <= 2 && b <= 2);
    let r = mk_when(a).or(mk_when(b));
    vreplay_assert!(r.is_always() == (a == 2 || b == 2) && r.is_never() == (a == 0 && b == 0), "C12 contract of When::or");
}

//@ob C09.contract.when.certainty
//@ props: C09 C12
//@ kind: complete
//@ contract: When::certainty
//@ fns: src/query.rs::When::certainty
//@ pre: none
//@ post: [attribute contract] Always iff both are Always; Never iff both are Never
fn ob_c09_contract_when_certainty(a: u8, b: u8) {
    vassume!(a <= 2 && b <= 2);
    let r = mk_when(a).certainty(mk_when(b));
    vreplay_assert!(r.is_always() == (a == 2 && b == 2) && r.is_never() == (a == 0 && b == 0), "C09 contract of When::certainty");
}

//@ob C12.query.canary
//@ props: C12
//@ kind: canary
//@ fns: -
//@ pre: none
//@ post: must FAIL
fn ob_c12_query_canary(a: u8) {
    vassume!(a <= 2);
    let _ = mk_when(a).and(When::Sometimes);
    assert!(a != 1, "canary");
}
