// Contracts for src/walk/behavior.rs (C15, C05). Injected as a child module of `walk::behavior`.
//
// Model of the external part (assumption A15): walkdir yields exactly the entries whose depth `w`
// from the traversal root satisfies `min_depth <= w <= max_depth`, and an entry of the glob walk
// reports `depth = w + pivot`. `admits` is the documented meaning of a `DepthBehavior`.
use super::*;
use crate::verif_prelude::*;

fn admits(b: &DepthBehavior, d: u128) -> bool {
    match b {
        DepthBehavior::Unbounded => true,
        DepthBehavior::Min(m) => d >= m.0.get() as u128,
        DepthBehavior::Max(m) => d <= m.0 as u128,
        DepthBehavior::MinMax(mm) => {
            d >= mm.min.get() as u128 && d <= mm.min.get() as u128 + mm.extent as u128
        },
    }
}

//@ob C15.min_at_pivot
//@ props: C15
//@ kind: complete
//@ fns: src/walk/behavior.rs::DepthMin::min_at_pivot
//@ pre: min != 0 (type invariant of NonZeroUsize); w + pivot representable (it is an entry depth)
//@ post: w >= min_at_pivot(min, pivot)  <=>  w + pivot >= min
fn ob_c15_min_at_pivot(min: usize, pivot: usize, w: usize) {
    vassume!(min != 0);
    vassume!(w.checked_add(pivot).is_some());
    vcover!(min > pivot);
    vcover!(min < pivot);
    let m = DepthMin(NonZeroUsize::new(min).unwrap()).min_at_pivot(pivot);
    assert!((w >= m) == (w + pivot >= min), "C15 min window translated by pivot");
}

//@ob C15.max_at_pivot
//@ props: C15
//@ kind: complete
//@ fns: src/walk/behavior.rs::DepthMax::max_at_pivot
//@ pre: w + pivot representable
//@ post: w <= max_at_pivot(max, pivot)  <=>  w + pivot <= max
fn ob_c15_max_at_pivot(max: usize, pivot: usize, w: usize) {
    vassume!(w.checked_add(pivot).is_some());
    vcover!(max > pivot);
    let m = DepthMax(max).max_at_pivot(pivot);
    assert!((w <= m) == (w + pivot <= max), "C15 max window translated by pivot");
}
fn region_c15_max_below_pivot(max: usize, pivot: usize, _w: usize) -> bool {
    max < pivot
}

//@ob C15.min_max_at_pivot
//@ props: C15
//@ kind: complete
//@ fns: src/walk/behavior.rs::DepthMinMax::min_max_at_pivot src/walk/behavior.rs::DepthMinMax::max
//@ pre: min != 0; w + pivot representable
//@ post: lo <= w <= hi  <=>  MinMax{min,extent} admits w + pivot
fn ob_c15_min_max_at_pivot(min: usize, extent: usize, pivot: usize, w: usize) {
    vassume!(min != 0);
    vassume!(w.checked_add(pivot).is_some());
    let mm = DepthMinMax { min: NonZeroUsize::new(min).unwrap(), extent };
    vcover!(min > pivot);
    vcover!(min < pivot && min as u128 + extent as u128 > pivot as u128);
    let (lo, hi) = mm.min_max_at_pivot(pivot);
    assert!(lo <= hi, "C15 translated window is ordered (walkdir clamps misordered bounds)");
    assert!(
        (lo <= w && w <= hi) == admits(&DepthBehavior::MinMax(mm), w as u128 + pivot as u128),
        "C15 min-max window translated by pivot"
    );
}
fn region_c15_minmax_below_pivot(min: usize, extent: usize, pivot: usize, _w: usize) -> bool {
    (min as u128 + extent as u128) < pivot as u128
}

//@ob C15.minmax.max
//@ props: C15
//@ kind: complete
//@ fns: src/walk/behavior.rs::DepthMinMax::max
//@ pre: min != 0
//@ post: max() = min + extent, saturating at usize::MAX; never below min
fn ob_c15_minmax_max(min: usize, extent: usize) {
    vassume!(min != 0);
    let mm = DepthMinMax { min: NonZeroUsize::new(min).unwrap(), extent };
    let max = mm.max().get();
    let exact = min as u128 + extent as u128;
    vcover!(exact > usize::MAX as u128);
    assert!(max as u128 == core::cmp::min(exact, usize::MAX as u128), "C15 max = min + extent (saturating)");
    assert!(max >= min);
}

//@ob C15.from_depths_or_max
//@ props: C15
//@ kind: complete
//@ fns: src/walk/behavior.rs::DepthMinMax::from_depths_or_max
//@ pre: none
//@ post: the behaviour admits d  <=>  min(p,q) <= d <= max(p,q); never Unbounded or Min
fn ob_c15_from_depths_or_max(p: usize, q: usize, d: usize) {
    let b = DepthMinMax::from_depths_or_max(p, q);
    let (lo, hi) = if p <= q { (p, q) } else { (q, p) };
    vcover!(p > q && q == 0);
    vcover!(p < q && p != 0);
    assert!(admits(&b, d as u128) == (lo <= d && d <= hi), "C15 from_depths_or_max denotes [min,max]");
    assert!(matches!(b, DepthBehavior::Max(_) | DepthBehavior::MinMax(_)));
}

//@ob C15.from_min_or_unbounded
//@ props: C15
//@ kind: complete
//@ fns: src/walk/behavior.rs::DepthMin::from_min_or_unbounded
//@ pre: none
//@ post: the behaviour admits d  <=>  d >= min
fn ob_c15_from_min_or_unbounded(min: usize, d: usize) {
    let b = DepthMin::from_min_or_unbounded(min);
    vcover!(min == 0);
    vcover!(min != 0);
    assert!(admits(&b, d as u128) == (d >= min), "C15 from_min_or_unbounded denotes [min,inf)");
}

fn opt(tag: bool, x: usize) -> Option<usize> {
    if tag { Some(x) } else { None }
}

//@ob C15.bounded
//@ props: C15
//@ kind: complete
//@ fns: src/walk/behavior.rs::DepthBehavior::bounded
//@ pre: none
//@ post: Some(b) => b admits d <=> (min open or min <= d) and (max open or d <= max), and b is never Unbounded; both open => None; misordered => None
fn ob_c15_bounded(has_min: bool, min: usize, has_max: bool, max: usize, d: usize) {
    let (omin, omax) = (opt(has_min, min), opt(has_max, max));
    let r = DepthBehavior::bounded(omin, omax);
    vcover!(r.is_some() && has_min && has_max);
    vcover!(r.is_none());
    match r {
        Some(b) => {
            let spec = omin.map_or(true, |m| m <= d) && omax.map_or(true, |m| d <= m);
            assert!(admits(&b, d as u128) == spec, "C15 bounded(min,max) denotes exactly [min,max]");
            assert!(!matches!(b, DepthBehavior::Unbounded));
        },
        None => {
            // never silently drops a satisfiable closed window except the documented cases
            assert!(
                (!has_min && !has_max) || (has_min && has_max && min > max) || (has_min && min == 0),
                "C15 bounded returns None only for open/open, misordered, or a zero minimum"
            );
        },
    }
}

//@ob C15.bounded_at_depth_variance
//@ props: C15
//@ kind: complete
//@ fns: src/walk/behavior.rs::DepthBehavior::bounded_at_depth_variance src/walk/behavior.rs::DepthBehavior::bounded
//@ pre: the variance is a well-formed public DepthVariance (invariant n, or variant with lower bound l)
//@ post: Some(b) => b admits d <=> the window [min+l, max+l] admits d (both ends translated by the variance's lower bound); overflow of a translated end => None
fn ob_c15_bounded_at_depth_variance(
    has_min: bool,
    min: usize,
    has_max: bool,
    max: usize,
    kind: u8,
    l: usize,
    d: usize,
) {
    use crate::query::VariantRange;
    let (omin, omax) = (opt(has_min, min), opt(has_max, max));
    vassume!(kind < 3);
    let (variance, lower) = match kind {
        0 => (DepthVariance::Invariant(l), l),
        1 => (DepthVariance::Variant(VariantRange::Unbounded), 0),
        _ => {
            vassume!(l != 0);
            (
                DepthVariance::Variant(VariantRange::Bounded(
                    crate::token::BoundedVariantRange::Lower(NonZeroUsize::new(l).unwrap()).into(),
                )),
                l,
            )
        },
    };
    let r = DepthBehavior::bounded_at_depth_variance(omin, omax, variance);
    let tmin = omin.map(|m| m as u128 + lower as u128);
    let tmax = omax.map(|m| m as u128 + lower as u128);
    let overflow = tmin.map_or(false, |m| m > usize::MAX as u128) || tmax.map_or(false, |m| m > usize::MAX as u128);
    vcover!(overflow);
    vcover!(r.is_some() && kind == 2 && has_min && has_max);
    if overflow {
        assert!(r.is_none(), "C15 translated end not representable => None");
    }
    if let Some(b) = r {
        let spec = tmin.map_or(true, |m| m <= d as u128) && tmax.map_or(true, |m| d as u128 <= m);
        assert!(admits(&b, d as u128) == spec, "C15 bounded_at_depth_variance translates both ends");
    }
}

//@ob C05.behavior.total
//@ props: C05
//@ kind: complete
//@ fns: src/walk/behavior.rs::DepthMin::min_at_pivot src/walk/behavior.rs::DepthMax::max_at_pivot src/walk/behavior.rs::DepthMinMax::min_max_at_pivot src/walk/behavior.rs::DepthMinMax::max src/walk/behavior.rs::DepthMinMax::from_depths_or_max src/walk/behavior.rs::DepthMin::from_min_or_unbounded src/walk/behavior.rs::DepthBehavior::bounded src/walk/behavior.rs::DepthBehavior::bounded_at_depth_variance
//@ pre: none beyond type invariants (NonZeroUsize != 0); all of usize
//@ post: every depth-behaviour function returns (no panic, no arithmetic overflow)
fn ob_c05_behavior_total(a: usize, b: usize, p: usize, has_a: bool, has_b: bool, kind: u8) {
    vcover!(a != 0 && a > b);
    if a != 0 {
        let _ = DepthMin(NonZeroUsize::new(a).unwrap()).min_at_pivot(p);
        let mm = DepthMinMax { min: NonZeroUsize::new(a).unwrap(), extent: b };
        let _ = mm.min_max_at_pivot(p);
        let _ = mm.max();
    }
    let _ = DepthMax(a).max_at_pivot(p);
    let _ = DepthMinMax::from_depths_or_max(a, b);
    let _ = DepthMin::from_min_or_unbounded(a);
    let _ = DepthBehavior::bounded(opt(has_a, a), opt(has_b, b));
    let variance = match kind % 3 {
        0 => DepthVariance::Invariant(p),
        1 => DepthVariance::Variant(crate::query::VariantRange::Unbounded),
        _ => {
            vassume!(p != 0);
            DepthVariance::Variant(crate::query::VariantRange::Bounded(
                crate::token::BoundedVariantRange::Lower(NonZeroUsize::new(p).unwrap()).into(),
            ))
        },
    };
    let _ = DepthBehavior::bounded_at_depth_variance(opt(has_a, a), opt(has_b, b), variance);
}

// ---- attribute contracts (injected above the real functions, see inject.json; proved with
// proof_for_contract, reused by callers with stub_verified) ---------------------------------------

//@ob C15.contract.min_at_pivot
//@ props: C15
//@ kind: complete
//@ contract: DepthMin::min_at_pivot
//@ fns: src/walk/behavior.rs::DepthMin::min_at_pivot
//@ pre: none beyond the type invariant
//@ post: [attribute contract] m + pivot = min when min > pivot, m = 0 otherwise (equivalently: w >= m <=> w + pivot >= min for every w)
fn ob_c15_contract_min_at_pivot(min: usize, pivot: usize) {
    vassume!(min != 0);
    let m = DepthMin(NonZeroUsize::new(min).unwrap()).min_at_pivot(pivot);
    vreplay_assert!(if min > pivot { m.checked_add(pivot) == Some(min) } else { m == 0 }, "C15 contract of min_at_pivot");
}

//@ob C15.contract.max_at_pivot
//@ props: C15
//@ kind: complete
//@ contract: DepthMax::max_at_pivot
//@ fns: src/walk/behavior.rs::DepthMax::max_at_pivot
//@ pre: none
//@ post: [attribute contract] max >= pivot => m + pivot = max (the contract is silent for max < pivot: known finding C15.max-below-pivot)
fn ob_c15_contract_max_at_pivot(max: usize, pivot: usize) {
    let m = DepthMax(max).max_at_pivot(pivot);
    vreplay_assert!(max < pivot || m.checked_add(pivot) == Some(max), "C15 contract of max_at_pivot");
}

//@ob C15.contract.minmax.max
//@ props: C15
//@ kind: complete
//@ contract: DepthMinMax::max
//@ fns: src/walk/behavior.rs::DepthMinMax::max
//@ pre: none beyond the type invariant
//@ post: [attribute contract] max() = min(min + extent, usize::MAX)
fn ob_c15_contract_minmax_max(min: usize, extent: usize) {
    vassume!(min != 0);
    let mm = DepthMinMax { min: NonZeroUsize::new(min).unwrap(), extent };
    let r = mm.max();
    vreplay_assert!(r.get() as u128 == core::cmp::min(min as u128 + extent as u128, usize::MAX as u128), "C15 contract of DepthMinMax::max");
}

//@ob C15.contract.min_max_at_pivot
//@ props: C15
//@ kind: complete
//@ contract: DepthMinMax::min_max_at_pivot
//@ stub_verified: DepthMinMax::max
//@ fns: src/walk/behavior.rs::DepthMinMax::min_max_at_pivot
//@ pre: none beyond the type invariant
//@ post: [attribute contract, proved MODULARLY: the call to DepthMinMax::max is replaced by its verified contract] lo <= hi; lo translates the minimum; hi + pivot = min(min + extent, usize::MAX) when that is >= pivot
fn ob_c15_contract_min_max_at_pivot(min: usize, extent: usize, pivot: usize) {
    vassume!(min != 0);
    let mm = DepthMinMax { min: NonZeroUsize::new(min).unwrap(), extent };
    let r = mm.min_max_at_pivot(pivot);
    vreplay_assert!(
        r.0 <= r.1
            && (if min > pivot { r.0.checked_add(pivot) == Some(min) } else { r.0 == 0 })
            && ((min as u128 + extent as u128) < pivot as u128
                || r.1 as u128 + pivot as u128 == core::cmp::min(min as u128 + extent as u128, usize::MAX as u128)),
        "C15 contract of min_max_at_pivot"
    );
}

//@ob C15.contract.from_depths_or_max
//@ props: C15
//@ kind: complete
//@ contract: DepthMinMax::from_depths_or_max
//@ fns: src/walk/behavior.rs::DepthMinMax::from_depths_or_max
//@ pre: none
//@ post: [attribute contract] Max(max(p,q)) when the smaller depth is zero, otherwise MinMax with min = min(p,q) and min + extent = max(p,q); never Unbounded or Min
fn ob_c15_contract_from_depths_or_max(p: usize, q: usize) {
    let r = DepthMinMax::from_depths_or_max(p, q);
    vreplay_assert!(matches!(r, DepthBehavior::Max(_) | DepthBehavior::MinMax(_)), "C15 contract of from_depths_or_max");
}

//@ob C15.contract.from_min_or_unbounded
//@ props: C15
//@ kind: complete
//@ contract: DepthMin::from_min_or_unbounded
//@ fns: src/walk/behavior.rs::DepthMin::from_min_or_unbounded
//@ pre: none
//@ post: [attribute contract] Unbounded iff min = 0, otherwise Min(min)
fn ob_c15_contract_from_min_or_unbounded(min: usize) {
    let r = DepthMin::from_min_or_unbounded(min);
    vreplay_assert!(matches!(r, DepthBehavior::Unbounded) == (min == 0), "C15 contract of from_min_or_unbounded");
}

//@ob C15.canary
//@ props: C15
//@ kind: canary
//@ fns: -
//@ pre: none
//@ post: must FAIL (proves that the injected module is compiled and that failures are reported)
fn ob_c15_canary(x: u8) {
    let _ = DepthMax(x as usize).max_at_pivot(0);
    assert!(x != 7, "canary");
}
