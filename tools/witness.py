#!/usr/bin/env python3
"""Run the public-API witnesses of known_findings.json (known_witnesses/witness.rs) against a scratch
worktree of /repo HEAD (or VERIF_REPO). Not a registered check: documentation that the findings are
genuine (open ones are present, fixed ones are absent)."""
import os, shutil, subprocess, sys
from pathlib import Path
VERIF = Path(__file__).resolve().parent.parent
REPO = Path(os.environ.get("VERIF_REPO", "/repo"))
wt = Path(f"/tmp/witness_{os.getpid()}")
subprocess.run(["git", "-C", str(REPO), "worktree", "add", "-q", "--detach", str(wt), "HEAD"], check=True)
try:
    (wt / "tests").mkdir(exist_ok=True)
    shutil.copy(VERIF / "known_witnesses" / "witness.rs", wt / "tests" / "witness.rs")
    if (REPO / "Cargo.lock").exists():
        shutil.copy(REPO / "Cargo.lock", wt / "Cargo.lock")
    env = dict(os.environ, CARGO_NET_OFFLINE="true")
    p = subprocess.run(["cargo", "test", "--offline", "--test", "witness"], cwd=wt, env=env, capture_output=True, text=True)
    out = p.stdout + p.stderr
    print("\n".join(l for l in out.split("\n") if l.startswith("test ") or "test result" in l or "panicked" in l))
    sys.exit(p.returncode)
finally:
    subprocess.run(["git", "-C", str(REPO), "worktree", "remove", "--force", str(wt)])
    shutil.rmtree(wt, ignore_errors=True)
