#!/usr/bin/env python3
"""Shared machinery: obligation parsing, scratch copy + injection, Kani driver, playback, replay.

Nothing here decides a property by itself; it turns the contract sources under /verif/contracts
into verifier runs on a scratch copy of /repo's *current working tree* and parses what the
verifier said.
"""
import json
import os
import re
import shutil
import subprocess
import sys
import time
from pathlib import Path

VERIF = Path(__file__).resolve().parent.parent
REPO = Path(os.environ.get("VERIF_REPO", "/repo"))
CONTRACTS = VERIF / "contracts"
KANI_DIR = CONTRACTS / "kani"
SCRATCH_BASE = Path(os.environ.get("VERIF_SCRATCH", "/var/tmp"))
JOBS = int(os.environ.get("VERIF_JOBS", "12"))

PRIM = {"u8", "u16", "u32", "u64", "u128", "usize", "i8", "i16", "i32", "i64", "i128", "isize", "bool", "char"}


def out_dir(kind):
    """evidence/ and replays/ live in /verif; VERIF_OUT=<dir> redirects both (used when a check is run
    against a scratch tree via VERIF_REPO, so that the committed evidence is not overwritten)."""
    base = Path(os.environ["VERIF_OUT"]) if os.environ.get("VERIF_OUT") else VERIF
    d = base / kind
    d.mkdir(parents=True, exist_ok=True)
    return d


class Undecided(Exception):
    """The machinery could not decide (lost anchor, build failure, timeout...). Never an alarm."""


# ------------------------------------------------------------------------------------------------
# obligations
# ------------------------------------------------------------------------------------------------
class Ob:
    def __init__(self):
        self.id = None
        self.unit = None
        self.props = []
        self.kind = "complete"  # complete | bounded | canary
        self.bound = ""
        self.tier = "quick"
        self.fns = []
        self.pre = ""
        self.post = ""
        self.unwind = None
        self.stubs = []  # (orig, replacement)
        self.contract = None  # path for proof_for_contract
        self.stub_verified = []
        self.timeout = None
        self.replay = True
        self.fn_name = None
        self.args = []  # (name, type)
        self.line = 0

    @property
    def harness(self):
        return "h_" + self.fn_name[3:]

    def to_json(self):
        return {
            "id": self.id, "unit": self.unit, "kind": self.kind, "bound": self.bound, "tier": self.tier,
            "functions": self.fns, "pre": self.pre, "post": self.post, "body": self.fn_name,
            "inputs": [f"{n}: {t}" for n, t in self.args],
        }


def _split_args(s):
    out, depth, cur = [], 0, ""
    for ch in s:
        if ch in "([<":
            depth += 1
        elif ch in ")]>":
            depth -= 1
        if ch == "," and depth == 0:
            out.append(cur)
            cur = ""
        else:
            cur += ch
    if cur.strip():
        out.append(cur)
    res = []
    for a in out:
        a = a.strip()
        if not a:
            continue
        n, t = a.split(":", 1)
        res.append((n.strip().lstrip("_") if False else n.strip(), t.strip()))
    return res


def parse_unit(unit):
    path = KANI_DIR / f"{unit}.rs"
    text = path.read_text()
    lines = text.split("\n")
    obs = []
    i = 0
    while i < len(lines):
        m = re.match(r"\s*//@ob\s+(\S+)\s*$", lines[i])
        if not m:
            i += 1
            continue
        ob = Ob()
        ob.id = m.group(1)
        ob.unit = unit
        ob.line = i + 1
        i += 1
        while i < len(lines) and re.match(r"\s*//@", lines[i]):
            mm = re.match(r"\s*//@\s*(\w+):\s*(.*)$", lines[i])
            if not mm:
                raise Undecided(f"{path}:{i+1}: bad directive")
            k, v = mm.group(1), mm.group(2).strip()
            if k == "props":
                ob.props = v.split()
            elif k == "kind":
                mk = re.match(r"(complete|canary|bounded)\s*(?:\((.*)\))?$", v)
                if not mk:
                    raise Undecided(f"{path}:{i+1}: bad kind")
                ob.kind, ob.bound = mk.group(1), mk.group(2) or ""
            elif k == "tier":
                ob.tier = v
            elif k == "fns":
                ob.fns = [] if v == "-" else v.split()
            elif k == "pre":
                ob.pre = (ob.pre + " " + v).strip()
            elif k == "post":
                ob.post = (ob.post + " " + v).strip()
            elif k == "unwind":
                ob.unwind = int(v)
            elif k == "stub":
                a, b = v.split("=")
                ob.stubs.append((a.strip(), b.strip()))
            elif k == "contract":
                ob.contract = v
            elif k == "stub_verified":
                ob.stub_verified += v.split()
            elif k == "timeout":
                ob.timeout = int(v)
            elif k == "replay":
                ob.replay = (v != "none")
            else:
                raise Undecided(f"{path}:{i+1}: unknown directive {k}")
            i += 1
        # signature (possibly multi-line)
        sig = ""
        j = i
        while j < len(lines):
            sig += lines[j] + " "
            if "{" in lines[j]:
                break
            j += 1
        ms = re.match(r"\s*fn\s+(ob_\w+)\s*\((.*)\)\s*\{", sig)
        if not ms:
            raise Undecided(f"{path}:{i+1}: expected `fn ob_*(...) {{` after directives, got {sig[:80]!r}")
        ob.fn_name = ms.group(1)
        ob.args = _split_args(ms.group(2))
        for n, t in ob.args:
            base = t
            ma = re.match(r"\[(\w+);\s*(\d+)\]$", t)
            if ma:
                base = ma.group(1)
            if base not in PRIM:
                raise Undecided(f"{path}:{i+1}: harness bodies take primitive arguments only, got {t}")
        if not ob.props or not ob.post:
            raise Undecided(f"{path}:{ob.line}: obligation {ob.id} needs props and post")
        obs.append(ob)
        i = j + 1
    return obs


def all_units():
    inj = json.loads((KANI_DIR / "inject.json").read_text())
    return inj["units"]


def load_obligations():
    obs = []
    for unit in all_units():
        obs += parse_unit(unit)
    ids = [o.id for o in obs]
    dup = {x for x in ids if ids.count(x) > 1}
    if dup:
        raise Undecided(f"duplicate obligation ids: {dup}")
    return obs


def load_known():
    p = VERIF / "known_findings.json"
    if not p.exists():
        return []
    return json.loads(p.read_text())["findings"]


# ------------------------------------------------------------------------------------------------
# wrapper generation
# ------------------------------------------------------------------------------------------------
def gen_wrappers(ob, open_regions):
    """open_regions: list of region fn names for OPEN known findings on this obligation."""
    def wrapper(name, pre_lines):
        attrs = ["#[cfg(kani)]"]
        if ob.contract:
            attrs.append(f"#[kani::proof_for_contract({ob.contract})]")
        else:
            attrs.append("#[kani::proof]")
        if ob.unwind:
            attrs.append(f"#[kani::unwind({ob.unwind})]")
        for a, b in ob.stubs:
            attrs.append(f"#[kani::stub({a}, {b})]")
        for sv in ob.stub_verified:
            attrs.append(f"#[kani::stub_verified({sv})]")
        body = []
        for n, t in ob.args:
            body.append(f"    let {n}: {t} = kani::any();")
        body += pre_lines
        call = ", ".join(n for n, _ in ob.args)
        body.append(f"    {ob.fn_name}({call});")
        return "\n".join(attrs) + f"\nfn {name}() {{\n" + "\n".join(body) + "\n}\n"

    call = ", ".join(n for n, _ in ob.args)
    out = []
    names = []
    if open_regions:
        disj = " || ".join(f"{r}({call})" for r in open_regions)
        out.append(wrapper(ob.harness + "__outside", [f"    kani::assume(!({disj}));"]))
        names.append((ob.harness + "__outside", "outside", None))
        for r in open_regions:
            out.append(wrapper(ob.harness + "__inside_" + r, [f"    kani::assume({r}({call}));"]))
            names.append((ob.harness + "__inside_" + r, "inside", r))
    else:
        out.append(wrapper(ob.harness, []))
        names.append((ob.harness, "whole", None))
    return "\n".join(out), names


# ------------------------------------------------------------------------------------------------
# scratch copy + injection
# ------------------------------------------------------------------------------------------------
def sh(cmd, cwd=None, timeout=None, env=None):
    e = dict(os.environ)
    e["CARGO_NET_OFFLINE"] = "true"
    if env:
        e.update(env)
    t0 = time.time()
    try:
        p = subprocess.run(cmd, cwd=cwd, shell=isinstance(cmd, str), capture_output=True, text=True,
                           timeout=timeout, env=e, errors="replace")
        return p.returncode, p.stdout, p.stderr, time.time() - t0
    except subprocess.TimeoutExpired as ex:
        so = ex.stdout.decode(errors="replace") if isinstance(ex.stdout, bytes) else (ex.stdout or "")
        se = ex.stderr.decode(errors="replace") if isinstance(ex.stderr, bytes) else (ex.stderr or "")
        return 124, so, se, time.time() - t0


class Scratch:
    def __init__(self, tag="k"):
        self.path = SCRATCH_BASE / f"wax-verif.{tag}.{os.getpid()}"
        self.modpaths = {}  # unit -> rust module path of injected module
        self.injected = []

    def __enter__(self):
        if self.path.exists():
            shutil.rmtree(self.path)
        self.path.mkdir(parents=True)
        rc, so, se, _ = sh(["rsync", "-a", "--exclude", "target", "--exclude", ".git", f"{REPO}/", f"{self.path}/"])
        if rc != 0:
            raise Undecided(f"rsync failed: {se}")
        (self.path / ".cargo").mkdir(exist_ok=True)
        (self.path / ".cargo" / "config.toml").write_text("[net]\noffline = true\n")
        (self.path / "verif_gen").mkdir()
        return self

    def __exit__(self, *a):
        if os.environ.get("VERIF_KEEP_SCRATCH"):
            print(f"[keeping scratch {self.path}]", file=sys.stderr)
            return
        shutil.rmtree(self.path, ignore_errors=True)

    def inject(self, obligations, known, attrs=False):
        """Append harness modules (generated = contract source + wrappers) to the scratch copy."""
        inj = json.loads((KANI_DIR / "inject.json").read_text())
        by_unit = {}
        for ob in obligations:
            by_unit.setdefault(ob.unit, []).append(ob)
        # units whose helper vocabulary is used by an injected unit are injected too
        changed = True
        while changed:
            changed = False
            for u in list(by_unit):
                for d in inj["files"][u].get("deps", []):
                    if d not in by_unit:
                        by_unit[d] = parse_unit(d)
                        changed = True
        harness_index = {}  # harness fn -> (ob, role, region)
        # prelude at the crate root
        gen = self.path / "verif_gen"
        shutil.copy(KANI_DIR / "prelude.rs", gen / "prelude.rs")
        self._append("src/lib.rs", f'\n#[cfg(any(kani, verif_replay))]\n#[path = "{gen}/prelude.rs"]\nmod verif_prelude;\n')
        for unit, obs in by_unit.items():
            info = inj["files"][unit]
            src = (KANI_DIR / f"{unit}.rs").read_text()
            import vextract
            for m in re.finditer(r"^//@extract (\w+)\s*$", src, re.M):
                fn = vextract.EXTRACTORS.get(m.group(1))
                if fn is None:
                    raise Undecided(f"unknown extractor {m.group(1)}")
                src = src.replace(m.group(0), fn(REPO))
            src = vextract.expand_hoists(src, REPO)
            wrappers = []
            for ob in obs:
                if (ob.contract or ob.stub_verified) and not attrs:
                    continue  # needs the injected attribute contracts; generated only in the attr run
                regions = [k["region"] for k in known if k["obligation"] == ob.id and k["record"].startswith("open:")]
                w, names = gen_wrappers(ob, regions)
                wrappers.append(w)
                for hn, role, region in names:
                    harness_index[hn] = (ob, role, region)
            text = src + "\n// ---- generated wrappers (tools/vlib.py) ----\n" + "\n".join(wrappers)
            text += "\n// ---- replay entry points are appended below on demand ----\n"
            (gen / f"{unit}.rs").write_text(text)
            self._append(info["file"],
                         f'\n#[cfg(any(kani, verif_replay))]\n#[path = "{gen}/{unit}.rs"]\npub(crate) mod verif_kani_{unit};\n')
            self.modpaths[unit] = (info["module"] + "::" if info["module"] else "") + f"verif_kani_{unit}"
        # attribute contracts (only for the run that proves / uses them: an injected `requires` is
        # also asserted at the call sites of plain harnesses, which must not be disturbed)
        if attrs:
            for ac in inj.get("attr_contracts", []):
                self._attr(ac)
        return harness_index

    def _append(self, rel, text):
        p = self.path / rel
        if not p.exists():
            raise Undecided(f"anchor lost: file {rel} does not exist")
        with open(p, "a") as f:
            f.write(text)
        self.injected.append(rel)

    def _attr(self, ac):
        p = self.path / ac["file"]
        if not p.exists():
            raise Undecided(f"anchor lost: file {ac['file']}")
        lines = p.read_text().split("\n")
        # find impl header (or "-" for a free function), then the signature after it
        if ac["impl"].strip() == "-":
            sig = [i for i, l in enumerate(lines) if l == ac["fn"].strip()]  # unindented: a free fn of the file
            if len(sig) != 1:
                raise Undecided(f"anchor lost: free fn {ac['fn']!r} occurs {len(sig)} times in {ac['file']}")
            i = sig[0]
        else:
            hdr = [i for i, l in enumerate(lines) if l.strip() == ac["impl"].strip()]
            if len(hdr) != 1:
                raise Undecided(f"anchor lost: impl header {ac['impl']!r} occurs {len(hdr)} times in {ac['file']}")
            sig = [i for i, l in enumerate(lines) if i > hdr[0] and l.strip() == ac["fn"].strip()]
            if not sig:
                raise Undecided(f"anchor lost: fn {ac['fn']!r} in {ac['file']}")
            i = sig[0]
            # do not cross into another impl
            for l in lines[hdr[0] + 1:i]:
                if re.match(r"^impl\b", l):
                    raise Undecided(f"anchor lost: fn {ac['fn']!r} not inside {ac['impl']!r}")
        indent = re.match(r"\s*", lines[i]).group(0)
        new = [indent + f"#[cfg_attr(kani, {a})]" for a in ac["attrs"]]
        lines[i:i] = new
        p.write_text("\n".join(lines))


# ------------------------------------------------------------------------------------------------
# Kani
# ------------------------------------------------------------------------------------------------
KANI_FLAGS = ["-Z", "function-contracts", "-Z", "stubbing"]


def kani_build_and_run(scratch, harness_paths, timeout, jobs=JOBS, extra=None):
    """Run the listed harnesses (fully qualified) in one cargo-kani invocation. Returns (rc, out, wall)."""
    cmd = ["cargo", "kani"] + KANI_FLAGS + ["--output-format=terse", "-j", str(jobs), "--exact"]
    for h in harness_paths:
        cmd += ["--harness", h]
    if extra:
        cmd += extra
    rc, so, se, wall = sh(cmd, cwd=scratch.path, timeout=timeout)
    return rc, so + "\n" + se, wall, " ".join(cmd)


def repo_fingerprint():
    import hashlib
    h = hashlib.sha256()
    files = sorted(list((REPO / "src").rglob("*.rs")) + [REPO / "Cargo.toml", REPO / "Cargo.lock"])
    for f in files:
        h.update(str(f.relative_to(REPO)).encode())
        h.update(f.read_bytes() if f.exists() else b"<absent>")
    rc, so, _, _ = sh(["git", "-C", str(REPO), "rev-parse", "--short", "HEAD"])
    rc2, so2, _, _ = sh(["git", "-C", str(REPO), "status", "--porcelain", "--untracked-files=no"])
    return {"head": so.strip(), "dirty": bool(so2.strip()), "src_sha256": h.hexdigest()[:16], "files": len(files)}
