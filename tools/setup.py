#!/usr/bin/env python3
"""Setup after a fresh restore: nothing to build (the tools are plain python3 + the installed verifiers).
Checks that the verifiers are present and that the contract sources parse."""
import shutil, subprocess, sys, os
sys.path.insert(0, os.path.dirname(os.path.abspath(__file__)))
ok = True
for tool in ("cargo", "cargo-kani", "verus", "rsync", "diff"):
    if shutil.which(tool) is None:
        print(f"missing tool: {tool}"); ok = False
import vlib, vverus
try:
    n = len(vlib.load_obligations()); m = len(vverus.load_obligations())
    print(f"contracts parse: {n} Kani obligations, {m} Verus obligations")
except Exception as e:
    print(f"contract sources do not parse: {e}"); ok = False
for d in ("evidence", "replays"):
    os.makedirs(os.path.join(vlib.VERIF, d), exist_ok=True)
sys.exit(0 if ok else 1)
