#!/usr/bin/env python3
"""native_build.py: compile every contract unit under the NATIVE replay configuration
(`--cfg verif_replay`, plain rustc) on a scratch copy of /repo. Not a registered check: a guard for
the machinery itself -- a contract source that only compiles under Kani (e.g. an assert message with
unescaped braces) would make every native replay of that unit fail (a violation would then be
reported as `no-failing-input-found` instead of with a replayed input)."""
import os, sys
sys.path.insert(0, os.path.dirname(os.path.abspath(__file__)))
import vlib
obs = vlib.load_obligations()
with vlib.Scratch("native") as s:
    s.inject(obs, vlib.load_known())
    rc, so, se, wall = vlib.sh("cargo check --offline --lib --tests", cwd=s.path, timeout=1800, env={"RUSTFLAGS": "--cfg verif_replay"})
    errs = [l for l in (so + se).split("\n") if l.startswith("error")]
    print(f"native build of {len({o.unit for o in obs})} units: rc={rc} wall={wall:.0f}s")
    for e in errs[:20]:
        print(e)
    sys.exit(0 if rc == 0 else 2)
