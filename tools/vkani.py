#!/usr/bin/env python3
"""Kani back end: run obligations, classify results, counterexample playback and native replay."""
import json
import os
import re
import sys
import time

import vlib
from vlib import Undecided, VERIF, REPO, Scratch, sh

BUILD_BUDGET = 240
HARNESS_TIMEOUT = {"quick": 420, "thorough": 1500}


# ------------------------------------------------------------------------------------------------
def parse_terse(out):
    """Parse `cargo kani --output-format=terse -j N` output into {harness: result}."""
    res = {}
    cur = {}  # thread -> harness
    lines = out.split("\n")
    i = 0
    block_owner = None
    block = []

    def flush():
        nonlocal block_owner, block
        if block_owner is not None:
            res[block_owner] = parse_block(block)
        block_owner, block = None, []

    for l in lines:
        m = re.match(r"^Thread (\d+): Checking harness (\S+?)\.\.\.\s*$", l)
        if m:
            flush()
            cur[m.group(1)] = m.group(2)
            continue
        m = re.match(r"^Thread (\d+):\s*$", l)
        if m:
            flush()
            block_owner = cur.get(m.group(1))
            continue
        m = re.match(r"^Checking harness (\S+?)\.\.\.\s*$", l)  # single-threaded format
        if m:
            flush()
            block_owner = m.group(1)
            continue
        if l.startswith("Manual Harness Summary") or l.startswith("Complete - "):
            flush()
            continue
        if block_owner is not None:
            block.append(l)
    flush()
    return res


def parse_block(block):
    text = "\n".join(block)
    r = {"raw_status": None, "checks": None, "failed_n": None, "covers": None, "failed_checks": [], "solver_s": None, "text": text}
    m = re.search(r"VERIFICATION:- (SUCCESSFUL|FAILED)", text)
    if m:
        r["raw_status"] = m.group(1)
    m = re.search(r"\*\* (\d+) of (\d+) failed", text)
    if m:
        r["failed_n"], r["checks"] = int(m.group(1)), int(m.group(2))
    m = re.search(r"\*\* (\d+) of (\d+) cover properties satisfied", text)
    if m:
        r["covers"] = [int(m.group(1)), int(m.group(2))]
    m = re.search(r"Verification Time: ([0-9.]+)s", text)
    if m:
        r["solver_s"] = float(m.group(1))
    for m in re.finditer(r'Failed Checks: (.*)\n File: "([^"]*)", line (\d+), in ([^\n]+)', text):
        r["failed_checks"].append({"description": m.group(1).strip().strip('"'), "file": m.group(2), "line": int(m.group(3)), "function": m.group(4)})
    # failed checks without location
    for m in re.finditer(r"Failed Checks: (.*)\n(?! File:)", text):
        r["failed_checks"].append({"description": m.group(1).strip().strip('"'), "file": "", "line": 0, "function": ""})
    if "CBMC timed out" in text or "CBMC failed" in text or "out of memory" in text.lower():
        # resource limit, not a verdict
        r["raw_status"] = None
        r["timeout"] = True
    return r


def is_unwind(fc):
    return "unwinding assertion" in fc["description"]


def rel_file(path, scratch):
    p = str(path)
    sp = str(scratch.path)
    if p.startswith(sp + "/verif_gen/"):
        return "contracts/kani/" + p[len(sp) + len("/verif_gen/"):]
    if p.startswith(sp + "/"):
        return p[len(sp) + 1:]
    return p


# ------------------------------------------------------------------------------------------------
def check_t2(scratch):
    """T2: the scratch copy differs from the working tree only by added lines."""
    rc, so, se, _ = sh(["diff", "-r", "-U0", "--exclude=target", "--exclude=.git", "--exclude=.cargo", "--exclude=verif_gen",
                        str(REPO), str(scratch.path)])
    removed = [l for l in so.split("\n") if l.startswith("-") and not l.startswith("---")]
    if removed:
        raise Undecided(f"T2 violated: injection removed or rewrote lines: {removed[:3]}")
    added = [l for l in so.split("\n") if l.startswith("+") and not l.startswith("+++")]
    return len(added)


def run_obligations(sel, known, tier, prop):
    """Plain harness-stated obligations and attribute-contract obligations (proof_for_contract /
    stub_verified) run in two separate scratch copies: only the second carries the injected
    `kani::requires/ensures` attribute lines."""
    out = {"results": [], "undecided": [], "violations": [], "known_hits": [], "cmds": []}
    plain = [o for o in sel if not (o.contract or o.stub_verified)]
    attr = [o for o in sel if (o.contract or o.stub_verified)]
    # the canary of a unit goes with whichever group has obligations of that unit (plain preferred)
    for group, flag in ((plain, False), (attr, True)):
        real = [o for o in group if o.kind != "canary"]
        if not real:
            continue
        units = {o.unit for o in real}
        grp = real + [o for o in sel if o.kind == "canary" and o.unit in units and not (o.contract or o.stub_verified)]
        part = _run_group(grp, known, tier, prop, flag)
        for k in out:
            out[k] += part[k]
    # de-duplicate canary results (a canary may have run in both groups)
    seen = set()
    res = []
    for r in out["results"]:
        key = (r["id"], r["harness"])
        if r["kind"] == "canary" and key in seen:
            continue
        seen.add(key)
        res.append(r)
    out["results"] = res
    return out


def _run_group(sel, known, tier, prop, attrs):
    out = {"results": [], "undecided": [], "violations": [], "known_hits": [], "cmds": []}
    units = sorted({o.unit for o in sel})
    all_obs = [o for o in vlib.load_obligations() if o.unit in units]
    htimeout = int(os.environ.get("VERIF_HARNESS_TIMEOUT", HARNESS_TIMEOUT[tier]))
    with Scratch(f"{prop}.{tier}.{'attr' if attrs else 'plain'}") as s:
        idx = s.inject(all_obs, known, attrs=attrs)
        added = check_t2(s)
        sel_ids = {o.id for o in sel}
        harnesses = [(h, v) for h, v in idx.items() if v[0].id in sel_ids]
        hpaths = {s.modpaths[v[0].unit] + "::" + h: (h, v) for h, v in harnesses}
        budget = BUILD_BUDGET + sum(min(htimeout, (v[0].timeout or htimeout)) for _, v in harnesses) // max(1, min(vlib.JOBS, len(harnesses))) + htimeout
        rc, text, wall, cmd = vlib.kani_build_and_run(
            s, list(hpaths.keys()), timeout=budget,
            extra=["-Z", "unstable-options", "--harness-timeout", f"{htimeout}s"])
        out["cmds"].append(cmd.replace(str(s.path), "<scratch copy of /repo>"))
        log = vlib.out_dir("evidence") / "logs"
        log.mkdir(parents=True, exist_ok=True)
        (log / f"{prop}.{tier}.kani{'.attr' if attrs else ''}.log").write_text(text.replace(str(s.path), "<scratch>"))
        if not re.search(r"Compiling wax v\S+ \(" + re.escape(str(s.path)) + r"\)", text):
            m = re.search(r"error(\[E\d+\])?: .*", text)
            raise Undecided(f"scratch crate was not compiled by cargo kani (rc={rc}): {m.group(0) if m else text[-400:]}")
        if re.search(r"^error(\[E\d+\])?:", text, re.M) and "Checking harness" not in text:
            m = re.search(r"^error(\[E\d+\])?: .*(\n.*){0,6}", text, re.M)
            raise Undecided(f"harness module no longer compiles against the tree: {m.group(0)}")
        parsed = parse_terse(text)
        failed_for_playback = []
        for hp, (h, (ob, role, region)) in hpaths.items():
            pr = parsed.get(hp)
            r = {
                "id": ob.id, "harness": h, "backend": "kani-0.68/cbmc-6.11(cadical)", "kind": ob.kind, "bound": ob.bound, "role": role,
                "region": region, "functions": ob.fns, "pre": ob.pre, "post": ob.post,
                "inputs": [f"{n}: {t}" for n, t in ob.args], "counts": ob.kind != "canary" and role != "inside",
                "status": "UNDECIDED", "raw_status": None, "checks": None, "covers": None, "solver_s": None, "failed_checks": [],
            }
            out["results"].append(r)
            if pr is None or pr["raw_status"] is None:
                out["undecided"].append(f"{ob.id} ({h}): no verdict from Kani (timeout {htimeout}s, crash or resource limit)")
                continue
            r["raw_status"] = pr["raw_status"]
            r["checks"], r["covers"], r["solver_s"] = pr["checks"], pr["covers"], pr["solver_s"]
            r["failed_checks"] = [dict(fc, file=rel_file(fc["file"], s)) for fc in pr["failed_checks"]]
            if ob.kind == "canary":
                if pr["raw_status"] == "FAILED":
                    r["status"] = "CANARY-FAILED-AS-REQUIRED"
                else:
                    out["undecided"].append(f"{ob.id}: canary did not fail - the pipeline does not report failures")
                continue
            if pr["raw_status"] == "SUCCESSFUL":
                if pr["covers"] and pr["covers"][0] != pr["covers"][1]:
                    if role == "inside":
                        r["status"] = "REGION-EMPTY"
                        continue
                    out["undecided"].append(f"{ob.id} ({h}): {pr['covers'][1]-pr['covers'][0]} cover(s) unsatisfiable - contract vacuous on some case")
                    continue
                if not pr["checks"]:
                    out["undecided"].append(f"{ob.id} ({h}): zero checks generated")
                    continue
                r["status"] = "DISCHARGED"
                continue
            # FAILED
            real = [fc for fc in r["failed_checks"] if not is_unwind(fc)]
            if not real:
                if pr["covers"] and pr["covers"][0] != pr["covers"][1] and not r["failed_checks"]:
                    out["undecided"].append(f"{ob.id} ({h}): unsatisfiable cover")
                else:
                    out["undecided"].append(f"{ob.id} ({h}): only unwinding assertions failed - bound too small")
                continue
            r["status"] = "FAILED"
            if role == "inside":
                k = [k for k in known if k["obligation"] == ob.id and k["region"] == region][0]
                exp = k["failed_check"]
                ok = all(exp["description"] in fc["description"] and exp["function"] in fc["function"] for fc in real)
                if ok:
                    r["status"] = "KNOWN-FINDING"
                    hit = {"id": k["id"], "obligation": ob.id, "region": region, "what": k["record"].split(" ", 2)[2] if k["record"].count(" ") >= 2 else k["record"],
                           "failed_check": real[0], "api_witness": k.get("api_witness")}
                    if not any(x["id"] == hit["id"] for x in out["known_hits"]):
                        out["known_hits"].append(hit)
                    continue
            failed_for_playback.append((hp, h, ob, role, region, r))
        # thorough tier: every discharged complete obligation that was cheap enough is re-solved with a
        # second SAT back end (kissat); a disagreement makes the obligation UNDECIDED, never a violation
        if tier == "thorough" and os.environ.get("VERIF_SECOND_SOLVER", "1") != "0":
            again = {hp: hv for hp, hv in hpaths.items()
                     if any(r["harness"] == hv[0] and r["status"] == "DISCHARGED" and r["kind"] == "complete" and (r["solver_s"] or 0) < 120 for r in out["results"])}
            if again:
                rc2, text2, wall2, cmd2 = vlib.kani_build_and_run(
                    s, list(again.keys()), timeout=BUILD_BUDGET + 600 * (1 + len(again) // max(1, vlib.JOBS)),
                    extra=["-Z", "unstable-options", "--harness-timeout", "600s", "--solver", "kissat"])
                out["cmds"].append(cmd2.replace(str(s.path), "<scratch copy of /repo>"))
                (log / f"{prop}.{tier}.kani{'.attr' if attrs else ''}.kissat.log").write_text(text2.replace(str(s.path), "<scratch>"))
                parsed2 = parse_terse(text2)
                for hp, (h, (ob, role, region)) in again.items():
                    r = [x for x in out["results"] if x["harness"] == h][0]
                    p2 = parsed2.get(hp)
                    if p2 is None or p2["raw_status"] is None:
                        r["second_solver"] = "kissat: no verdict"
                    elif p2["raw_status"] == "SUCCESSFUL":
                        r["second_solver"] = f"kissat: SUCCESSFUL in {p2['solver_s']}s"
                    else:
                        r["second_solver"] = "kissat: FAILED"
                        r["status"] = "UNDECIDED"
                        out["undecided"].append(f"{ob.id} ({h}): the two SAT back ends disagree (cadical: SUCCESSFUL, kissat: FAILED)")
        # counterexamples + native replay for genuine failures
        for hp, h, ob, role, region, r in failed_for_playback:
            rp = make_replay(s, hp, h, ob, role, region, r, prop)
            nr = rp.get("native_replay")
            if nr and nr.get("ran") and not nr.get("reproduced"):
                # The verifier printed concrete inputs but the real code does not fail on any of
                # them: contradictory evidence (a verifier artefact was observed once, DESIGN 6.3).
                # Not reported as a violation of the code; the run is UNDECIDED (exit 2).
                r["status"] = "UNDECIDED"
                out["undecided"].append(f"{ob.id} ({h}): Kani reports a failed check but none of its counterexamples fails natively on the real code; see {rp['replay']}")
                continue
            out["violations"].append(rp)
    return out


# ------------------------------------------------------------------------------------------------
def playback(scratch, hp, timeout=600):
    """Concrete values for the failed harness. Kani prints one unit test per failed check and per
    satisfied cover and de-duplicates identical value vectors, so the failing trace may be filed
    under a cover: all candidates are returned (failed checks first) and the native replay decides."""
    cmd = ["cargo", "kani"] + vlib.KANI_FLAGS + ["-Z", "concrete-playback", "--concrete-playback=print", "--exact", "--harness", hp]
    rc, so, se, wall = sh(cmd, cwd=scratch.path, timeout=timeout)
    text = so + "\n" + se
    tests = re.findall(r"/// Check for `(\w+)`: ([^\n]*)\n\s*#\[test\]\s*\nfn \w+\(\) \{\n\s*let concrete_vals: Vec<Vec<u8>> = vec!\[\n(.*?)\n\s*\];", text, re.S)
    cands = []
    for kind, desc, body in sorted(tests, key=lambda t: t[0] == "cover"):
        vals = [bytes(int(x) for x in v.split(",") if x.strip()) for v in re.findall(r"vec!\[([0-9, ]*)\]", body)]
        if vals not in [c[0] for c in cands]:
            cands.append((vals, kind, desc.strip()))
    return cands, text


def decode(args, vals):
    """Map Kani's byte vectors onto the primitive arguments of the body, in draw order."""
    out = []
    k = 0

    def one(t):
        nonlocal k
        if k >= len(vals):
            raise ValueError("too few values")
        b = vals[k]
        k += 1
        if t == "bool":
            return "true" if int.from_bytes(b, "little") & 1 else "false"
        if t == "char":
            return f"char::from_u32({int.from_bytes(b, 'little')}u32).unwrap()"
        signed = t.startswith("i")
        return f"{int.from_bytes(b, 'little', signed=signed)}{t}"

    for n, t in args:
        m = re.match(r"\[(\w+);\s*(\d+)\]$", t)
        if m:
            out.append("[" + ", ".join(one(m.group(1)) for _ in range(int(m.group(2)))) + "]")
        else:
            out.append(one(t))
    if k != len(vals):
        raise ValueError(f"{len(vals)} values for {k} draws")
    return out


def native_replay(scratch, ob, value_sets, timeout=900):
    """Append #[test] entries that call the body with each candidate value vector; run with plain cargo."""
    gen = scratch.path / "verif_gen" / f"{ob.unit}.rs"
    entry = ""
    for i, values in enumerate(value_sets):
        entry += f"\n#[cfg(verif_replay)]\n#[test]\nfn verif_replay_entry_{i}() {{\n    {ob.fn_name}({', '.join(values)});\n}}\n"
    base = gen.read_text().split("// ---- replay entry (generated) ----")[0]
    gen.write_text(base + "// ---- replay entry (generated) ----" + entry)
    cmd = ["cargo", "test", "--offline", "--lib", "verif_replay_entry_", "--", "--nocapture", "--test-threads", "1"]
    rc, so, se, wall = sh(cmd, cwd=scratch.path, timeout=timeout,
                          env={"RUSTFLAGS": "--cfg verif_replay -A unexpected_cfgs -A dead_code -A unused", "CARGO_TARGET_DIR": str(scratch.path / "target-replay"), "RUST_BACKTRACE": "0"})
    text = so + "\n" + se
    ran = re.search(r"running \d+ tests?", text) is not None
    failed = [int(x) for x in re.findall(r"test \S*verif_replay_entry_(\d+) \.\.\. FAILED", text)]
    m = re.search(r"panicked at [^\n]*\n[^\n]*", text)
    which = failed[0] if failed else None
    return {"ran": ran, "reproduced": bool(ran and failed), "candidate_reproducing": which,
            "panic": m.group(0).replace(str(scratch.path), "<scratch>") if m else None,
            "cmd": "RUSTFLAGS='--cfg verif_replay' " + " ".join(cmd) + "   (in a scratch copy of /repo with the harness module injected; `python3 tools/check.py --replay <this file>` does all of it)",
            "output_tail": text[-1500:].replace(str(scratch.path), "<scratch>")}


def make_replay(scratch, hp, h, ob, role, region, r, prop):
    cands, ptext = playback(scratch, hp)
    rec = {
        "property": prop, "obligation": ob.id, "harness": h, "role": role, "unit": ob.unit, "body": ob.fn_name,
        "functions": ob.fns, "pre": ob.pre, "post": ob.post,
        "failed_checks": r["failed_checks"],
        "verifier": r["backend"],
        "verifier_output": [f"{fc['description']} @ {fc['file']}:{fc['line']} in {fc['function']}" for fc in r["failed_checks"]],
        "inputs": None, "native_replay": None, "has_input": False,
        "repo_tree": vlib.repo_fingerprint(),
    }
    value_sets = []
    for vals, kind, desc in cands:
        try:
            value_sets.append(decode(ob.args, vals))
        except ValueError as e:
            rec["playback_note"] = f"could not map playback values onto the body arguments: {e}"
    if value_sets and not ob.replay:
        # the harness abstracts an external engine by a verifier-only stub (e.g. the regex oracle): the
        # body cannot run natively; the verifier's inputs are recorded, the replay is not attempted
        rec["inputs"] = {n: v for (n, _), v in zip(ob.args, value_sets[0])}
        rec["input_order"] = [n for n, _ in ob.args]
        rec["playback_note"] = "native replay not possible for this obligation (verifier-only stub of an external engine); inputs are the verifier's"
    elif value_sets:
        nr = native_replay(scratch, ob, value_sets)
        rec["native_replay"] = nr
        rec["has_input"] = nr["reproduced"]
        pick = value_sets[nr["candidate_reproducing"]] if nr["reproduced"] else value_sets[0]
        rec["inputs"] = {n: v for (n, _), v in zip(ob.args, pick)}
        rec["input_order"] = [n for n, _ in ob.args]
        if not nr["reproduced"]:
            rec["playback_note"] = "none of the verifier's candidate value vectors made the body panic natively"
    else:
        rec.setdefault("playback_note", "Kani printed no concrete values for the failed check")
        rec["verifier_output"].append(ptext[-1200:].replace(str(scratch.path), "<scratch>"))
    d = vlib.out_dir("replays")
    d.mkdir(exist_ok=True)
    p = d / f"{ob.id}.json"
    rec["replay"] = str(p)
    p.write_text(json.dumps(rec, indent=1) + "\n")
    return rec


def replay_file(path):
    rec = json.loads(open(path).read())
    if not rec.get("inputs"):
        print(f"replay {path}: obligation {rec['obligation']} has no failing input recorded; verifier output:")
        print("\n".join(rec["verifier_output"]))
        return 1
    obs = {o.id: o for o in vlib.load_obligations()}
    ob = obs.get(rec["obligation"])
    if ob is None:
        raise Undecided(f"obligation {rec['obligation']} no longer exists")
    known = vlib.load_known()
    all_obs = [o for o in obs.values() if o.unit == ob.unit]
    with Scratch("replay") as s:
        s.inject(all_obs, known)
        values = [rec["inputs"][n] for n, _ in ob.args]
        nr = native_replay(s, ob, [values])
    print(json.dumps(nr, indent=1))
    if nr["reproduced"]:
        print(f"REPRODUCED: {rec['obligation']} fails on the current tree with the recorded inputs: {nr['panic']}")
        return 1
    print(f"not reproduced on the current tree: {rec['obligation']}")
    return 0
