#!/usr/bin/env python3
"""check.py <property> [--tier quick|thorough]   decide one property on /repo's current tree
   check.py --replay <replay.json>                 re-run the native replay of a recorded violation
   check.py --list                                 list obligations per property
   check.py --update-counts                        rewrite contracts/expected_counts.json

exit 0  every obligation of the property DISCHARGED (or a listed known finding failing as listed)
exit 1  some obligation FAILED outside the known-findings file (VIOLATION line printed)
exit 2  nothing failed but something is UNDECIDED (machinery problem; never an alarm)
"""
import argparse
import json
import os
import re
import sys
import time

sys.path.insert(0, os.path.dirname(os.path.abspath(__file__)))
import vlib
from vlib import Undecided, VERIF, REPO
import vkani
import vverus

TRUSTED_BASE = [
    "T1 rustc/MIR semantics as modelled by Kani 0.68; CBMC 6.11 and its SAT back ends (machine integers bit-precise); Verus 0.2026.09.13 + Z3",
    "T2 the scratch copy differs from /repo's working tree only by appended harness modules and attribute lines (diff-checked on every run)",
    "T3 the generic traversal drivers (Token::fold, fold_map, filtrate loop) evaluate the per-node functions bottom-up in child order (unverified)",
    "T4 external crates: regex, nom/pori, walkdir (depth limits, skip_current_dir pops one level per call), itertools",
    "T5 std as modelled by Kani (saturating_*, checked_*, NonZero*, Vec, Box, char predicates); vstd + listed assume_specifications in Verus",
    "T6 rule-checker guarantees used as preconditions of algebra contracts (no adjacent boundaries, ordered non-degenerate repetition bounds, invariant size < 0x10000)",
    "T7 items hoisted verbatim from a function body (rule::branch tables, Token::has_root's Fold impl, partition's pop_expression_bytes and the `expression:` arm of its result, hoisted as an expression whose free variables become wrapper parameters) are compiled in a child module of the same file: names resolve through `use super::*` plus the function's own hoisted `use` items; the enclosing function's remaining body (the driver that calls them) is not under contract",
    "T8 verifier-only oracles replace what CBMC cannot decide: multiplication (C10.var.product.structure; axioms proved of the product of naturals by Verus), the regex engine (C13 Not obligations), the starting search of a non-leaf token (C06.branch.rooted.nested); each is listed in contracts/ASSUMPTIONS.md",
]


def select(obs, prop, tier):
    sel = [o for o in obs if prop in o.props and o.kind != "canary" and (tier == "thorough" or o.tier == "quick")]
    # the canary of every injected module that contributes an obligation runs too (must fail)
    units = {o.unit for o in sel}
    sel += [o for o in obs if o.kind == "canary" and o.unit in units]
    return sel


def expected_counts():
    p = VERIF / "contracts" / "expected_counts.json"
    return json.loads(p.read_text()) if p.exists() else {}


def compute_counts():
    obs = vlib.load_obligations()
    vobs = vverus.load_obligations()
    props = sorted({p for o in obs for p in o.props} | {p for o in vobs for p in o["props"]})
    out = {}
    for p in props:
        out[p] = {}
        for tier in ("quick", "thorough"):
            out[p][tier] = {
                "kani": len(select(obs, p, tier)),
                "verus": len([o for o in vobs if p in o["props"]]),
            }
    return out


def main():
    ap = argparse.ArgumentParser()
    ap.add_argument("prop", nargs="?")
    ap.add_argument("--tier", default=os.environ.get("VERIF_TIER", "quick"))
    ap.add_argument("--replay")
    ap.add_argument("--list", action="store_true")
    ap.add_argument("--update-counts", action="store_true")
    ap.add_argument("--only", help="regex on obligation id (debugging; evidence is then not written)")
    a = ap.parse_args()
    if a.tier not in ("quick", "thorough"):
        a.tier = "quick"
    try:
        if a.update_counts:
            c = compute_counts()
            (VERIF / "contracts" / "expected_counts.json").write_text(json.dumps(c, indent=1, sort_keys=True) + "\n")
            print(json.dumps(c, indent=1, sort_keys=True))
            return 0
        if a.list:
            for o in vlib.load_obligations():
                print(f"{o.id:55s} {','.join(o.props):12s} {o.kind:8s} {o.tier:8s} kani  {o.unit}")
            for o in vverus.load_obligations():
                print(f"{o['id']:55s} {','.join(o['props']):12s} {o['kind']:8s} quick    verus {o['unit']}")
            return 0
        if a.replay:
            return vkani.replay_file(a.replay)
        if not a.prop:
            ap.error("property id required")
        return run(a.prop, a.tier, a.only)
    except Undecided as e:
        print(f"UNDECIDED: {e}", file=sys.stderr)
        return 2
    except Exception as e:  # a defect of the machinery is never an alarm about the code
        import traceback
        traceback.print_exc()
        print(f"UNDECIDED: internal error of the checking machinery: {e!r}", file=sys.stderr)
        return 2


def run(prop, tier, only=None):
    t0 = time.time()
    seed = int(os.environ.get("VERIF_SEED", "0") or 0)
    obs = vlib.load_obligations()
    known = vlib.load_known()
    sel = select(obs, prop, tier)
    vobs = [o for o in vverus.load_obligations() if prop in o["props"]]
    if only:
        sel = [o for o in sel if re.search(only, o.id)]
        vobs = [o for o in vobs if re.search(only, o["id"])]
    else:
        exp = expected_counts().get(prop, {}).get(tier)
        if exp is None:
            raise Undecided(f"no expected obligation count recorded for {prop}/{tier}")
        if exp["kani"] != len(sel) or exp["verus"] != len(vobs):
            raise Undecided(f"obligation count drifted for {prop}/{tier}: expected {exp}, generated kani={len(sel)} verus={len(vobs)}")
    if not sel and not vobs:
        raise Undecided(f"no obligations for {prop}")

    # stale replay files of the obligations about to be re-decided are removed
    for oid in [o.id for o in sel] + [o["id"] for o in vobs]:
        f = vlib.out_dir("replays") / f"{oid}.json"
        if f.exists():
            f.unlink()
    results = []  # per obligation-harness dicts
    undecided = []
    violations = []
    known_hits = []
    checker_cmds = []

    if sel:
        kres = vkani.run_obligations(sel, known, tier, prop)
        results += kres["results"]
        undecided += kres["undecided"]
        violations += kres["violations"]
        known_hits += kres["known_hits"]
        checker_cmds += kres["cmds"]
    vres = {}
    if vobs:
        vres = vverus.run_obligations(vobs, prop)
        results += vres["results"]
        undecided += vres["undecided"]
        violations += vres["violations"]
        checker_cmds += vres["cmds"]

    # A verbatim Verus obligation whose extracted function left Verus' language subset (the assembled
    # file does not compile) is NOT undecided when its Kani twin -- the same contract on the same
    # function -- was discharged in this run: it is reported as skipped and not counted.
    if vobs and vres.get("compile_failed_units"):
        status = {}
        for r in results:
            if r.get("role") in ("whole", "outside"):
                status[r["id"]] = r["status"]
        for unit in vres["compile_failed_units"]:
            rs = [r for r in results if r.get("unit") == unit and r["backend"].startswith("verus") and r["kind"] != "canary"]
            if rs and all(r.get("twin") and status.get(r["twin"]) == "DISCHARGED" for r in rs):
                for r in [r for r in results if r.get("unit") == unit and r["backend"].startswith("verus")]:
                    r["status"] = "SKIPPED-OUTSIDE-VERUS-SUBSET (Kani twin discharged)"
                    r["counts"] = False
                undecided[:] = [u for u in undecided if not u.startswith(f"VERUS-SUBSET {unit}:")]
                print(f"NOTE: Verus unit {unit} is outside Verus' subset on this tree; its Kani twins were discharged", file=sys.stderr)
    for k in known_hits:
        print(f"KNOWN-FINDING: property={prop} {k['what']}")
    for v in violations:
        tail = "" if v.get("has_input") else " no-failing-input-found"
        print(f"VIOLATION property={prop} replay={v['replay']}{tail}")
    for u in undecided:
        print(f"UNDECIDED: {u}", file=sys.stderr)

    wall = time.time() - t0
    if not only:
        write_evidence(prop, tier, seed, results, undecided, violations, known_hits, checker_cmds, wall, sel, vobs)
    # summary
    n_ok = sum(1 for r in results if r["status"] == "DISCHARGED" and r["counts"])
    print(f"[{prop}/{tier}] obligations={sum(1 for r in results if r['counts'])} discharged={n_ok} "
          f"violations={len(violations)} known={len(known_hits)} undecided={len(undecided)} wall={wall:.1f}s")
    if violations:
        return 1
    if undecided:
        return 2
    return 0


def write_evidence(prop, tier, seed, results, undecided, violations, known_hits, cmds, wall, sel, vobs):
    counted = [r for r in results if r["counts"]]
    complete = [r for r in counted if r["kind"] == "complete"]
    bounded = [r for r in counted if r["kind"] == "bounded"]
    fns = {}
    for r in results:
        for f in r.get("functions", []):
            fns.setdefault(f, set()).add(r["backend"])
    assumptions = vlib_scan(sel, vobs)
    samples = []
    for r in counted[:3]:
        samples.append({k: r.get(k) for k in ("id", "harness", "backend", "pre", "post", "inputs", "status", "checks", "covers", "solver_s")})
    ev = {
        "property_id": prop,
        "tier": tier,
        "seed": seed,
        "level": "proof",
        "coverage": {
            "obligations": len(complete),
            "discharged": sum(1 for r in complete if r["status"] == "DISCHARGED"),
            "checker_cmd": " ; ".join(cmds),
            "trusted_base": TRUSTED_BASE + property_assumptions(prop),
            "bounded_obligations": [
                {"id": r["id"], "harness": r["harness"], "bound": r["bound"], "status": r["status"], "solver_s": r.get("solver_s")}
                for r in bounded
            ],
            "bounded_note": "bounded obligations are bounded checks with the stated bound; they are never counted in obligations/discharged",
            "per_obligation": [
                {k: r.get(k) for k in ("id", "harness", "backend", "kind", "role", "status", "checks", "covers", "solver_s", "failed_checks", "second_solver")}
                for r in results
            ],
            "functions_under_contract": [{"function": f, "back_ends": sorted(b)} for f, b in sorted(fns.items())],
            "samples": samples,
            "solver_time_s": round(sum((r.get("solver_s") or 0) for r in results), 2),
            "known_findings_hit": known_hits,
            "hoisted_items": hoisted_items(sel),
            "canaries": [{"id": r["id"], "harness": r["harness"], "must_fail": True, "failed": r["raw_status"] == "FAILED"} for r in results if r["kind"] == "canary"],
            "undecided": undecided,
            "repo_tree": vlib.repo_fingerprint(),
        },
        "assumptions": assumptions,
        "wall_s": round(wall, 2),
        "violations": len(violations),
    }
    p = vlib.out_dir("evidence") / f"{prop}.json"
    p.parent.mkdir(exist_ok=True)
    p.write_text(json.dumps(ev, indent=1) + "\n")


def property_assumptions(prop):
    """Property-specific assumptions: the level_note of the MANIFEST entry (what is assumed / outside
    the contracts for this property) plus the open known findings that split obligations of it."""
    out = []
    m = VERIF / "MANIFEST.json"
    if m.exists():
        for c in json.loads(m.read_text()).get("checks", []):
            if c["property_id"] == prop:
                out.append(f"{prop} (MANIFEST level_note): {c['level_note']}")
    for k in vlib.load_known():
        if k["property"] == prop and k["record"].startswith("open:"):
            out.append(f"open known finding {k['id']}: obligation {k['obligation']} is proved only outside region `{k['region']}`")
    return sorted(set(out))


def hoisted_items(sel):
    """What tools/vextract.py copied verbatim out of function bodies for the units of this run: file,
    enclosing function, first line and a hash of each copied item (re-extracted from /repo's current
    source, exactly as the injection does)."""
    import hashlib
    import vextract
    out = []
    for unit in sorted({o.unit for o in sel}):
        src = (vlib.KANI_DIR / f"{unit}.rs").read_text()
        for m in re.finditer(r"^//@hoist-all (.*)$", src, re.M):
            rel, fn = [x.strip() for x in m.group(1).split("|")]
            try:
                text = vextract.hoist_all(REPO, rel, fn)
            except Undecided as e:
                out.append({"unit": unit, "file": rel, "function": fn, "error": str(e)})
                continue
            items = []
            for block in text.split("// ---- hoisted verbatim from ")[1:]:
                head, _, body = block.partition("\n")
                first = next((l.strip() for l in body.split("\n") if l.strip() and not l.strip().startswith("#[")), "")
                items.append({"at": head.split(" (")[0], "starts": first[:80], "sha256": hashlib.sha256(body.encode()).hexdigest()[:12]})
            out.append({"unit": unit, "file": rel, "function": fn, "dropped": "the rest of the function body (statements, closures, deeper items), comments between items", "items": items})
        for m in re.finditer(r"^//@hoist-expr (.*)$", src, re.M):
            parts = [x.strip() for x in m.group(1).split("|")]
            try:
                text = vextract.hoist_expr(REPO, *parts)
            except (Undecided, TypeError) as e:
                out.append({"unit": unit, "file": parts[0], "function": parts[1] if len(parts) > 1 else "", "error": str(e)})
                continue
            head, _, body = text.split("// ---- hoisted verbatim from ")[1].partition("\n")
            out.append({"unit": unit, "file": parts[0], "function": parts[1],
                        "dropped": "the rest of the function body; the free variables of the expression are bound as parameters of a wrapper function in the harness module",
                        "items": [{"at": head.split(" (")[0], "starts": body.strip().split("\n")[0][:80], "sha256": hashlib.sha256(body.encode()).hexdigest()[:12], "kind": "expression"}]})
    return out


def vlib_scan(sel, vobs):
    import scan_assumptions
    units = sorted({o.unit for o in sel})
    vunits = sorted({o["unit"] for o in vobs})
    return scan_assumptions.scan(units, vunits)


if __name__ == "__main__":
    sys.exit(main())
