#!/usr/bin/env python3
"""Regenerate MANIFEST.json from the table below (kept valid at all times)."""
import json, os, sys
sys.path.insert(0, os.path.dirname(os.path.abspath(__file__)))
TECH = "contract-based deductive verification of the real code: "
CLAIMS = {
 "C05": ("proof", "Kani/CBMC harness-stated contracts (panic / overflow / unreachable freedom) on the real arithmetic and filter kernels, full machine domain",
         "Totality of every bounds-arithmetic kernel (natural ranges, depth / size variance operators, depth-window functions), of the filter kernels and of the span arithmetic, for all usize inputs: Kani's built-in panic, overflow, unwrap/expect and unreachable checks are the postcondition. Partial: the parser, the rule checker, the encoder, regex compilation, recursion depth and stack use are outside any obligation.",
         "Known finding C05.overflow-expect (bounds whose exact sum / product exceeds usize::MAX hit expect()). Products: totality for all usize bounds over the multiplication oracle (which never overflows) plus enumerated repetition bounds <= 3 or open with real multiplication (bounded). T1-T6 of DESIGN §3."),
 "C06": ("proof", "Kani harness-stated contracts on the decision tables of the branch rule, hoisted verbatim from the body of rule::branch on every run, and on the starting / ending sequencers",
         "Thin: the per-branch decision tables of the branch rule -- check_branch, check_alternation, check_repetition, the neighbour predicates (through the real starting / ending token walks) and Outer::or -- reject a branch exactly when the property says so, for every kind of leaf terminal and every kind of leaf neighbour (and for a rooted nested branch in first position); the Starting / Ending sequencers visit exactly the first / last token of a concatenation and every branch of an alternation (bounded: <= 3 children). NOT decided: the breadth-first driver of rule::branch that supplies terminals and neighbours (one genuine defect lives there and is documented, DESIGN 10.13), the `boundary`, `bounds` and `size` rules (closures in iterator pipelines), the parser's own adjacency checks, flags.",
         "rule::branch driver loop (shared `outer` variable), rule::{boundary,bounds,size}, token walks over branch neighbours (T3), the parser assumed. One genuine defect found by C06.branch.rooted.nested and repaired (F5, e11552a)."),
 "C09": ("proof", "Kani harness-stated contracts on term-level kernels of the exhaustiveness fold + Verus verbatim When::certainty",
         "Thin: the term-level verdict is sound (an exhaustive depth variance is upward closed, a non-exhaustive one is bounded above; a conjunctive term's verdict is definite), the repetition stride rule of TreeExhaustiveness::finalize, the leaf predicate the sequencer applies, and `certainty` never averaging away a non-exhaustive alternative. The sequencer scan (enqueue), the discard rule (fold) and the tree-level parent/child protocol are assumed - the known false positives (`**/{a}`) live there.",
         "TreeExhaustiveness::{enqueue,fold}, Token::fold driver, DisjunctiveTerm (HashSet) assumed; encoder conformance assumed (C01)."),
 "C10": ("proof", "Kani harness-stated contracts (interval soundness via membership, component-counting ground truth) + Verus verbatim Termination::conjunction + Verus lemma",
         "Depth algebra: x in gamma(a), y in gamma(b) => x+y in gamma(a /\\ b) and x in gamma(a) or gamma(b) => x in gamma(a \\/ b) for all bounds below 2^62 (complete); products for ALL usize bounds: the real product over a multiplication ORACLE (the two checked_mul primitives stubbed by an arbitrary function constrained only by facts of multiplication; Verus proves the product of naturals satisfies them, and a second lemma carries the interval ends to every repetition count), cross-checked by enumerated repetition bounds (bounded). Component counting: an INDUCTION over the real code -- every real leaf term satisfies a representation relation, the real SeparatedTerm conjunction preserves it for ANY two terms of any variance shape (outside the known-finding region), the real Repetition::finalize preserves it (bounded repetition counts), and the real finalize then contains the component count -- composed by a Verus lemma to every expression built from leaves by concatenation and conjunctive bracketing of any size and nesting; cross-checked against a concrete component count for all bracketed leaf sequences up to length 4. The fold driver and DisjunctiveTerm (alternation) are assumed.",
         "Known findings C10.bracket-before-tree (`/{a/**}`, `**/a{b/**}` over-report the lower bound) and C10.optional-edge-text (`<a:0,1>/b` reports 2, matches /b). Zero repetitions in the middle of an expression are not covered. Token::fold driver (T3), DisjunctiveTerm set operations, encoder conformance (C01), T6 rule guarantees as preconditions."),
 "C11": ("proof", "Kani harness-stated contracts on the leaf-level sources of text variance and on character casing",
         "Thin: every leaf-level source of variance reports variant text (wildcards, negated classes, ranges with distinct end points in either order, one-archetype classes invariant exactly when they list one character, cased literal under a mismatching case flag) and a character with any case mapping has casing (all of char, thorough tier). The Text algebra (conjunction / repetition / to_string of fragments) is out of reach (measured again this round), so 'the reported text is the one matched path' is not decided.",
         "Text (VecDeque<Cow<str>>) operators, TextVariance conversion and the fold driver assumed; literals bounded to <= 2 ASCII characters."),
 "C12": ("proof", "Kani harness-stated contracts + Verus verbatim When::{and,or,certainty}",
         "Thin: the rooting classification of leaves (is_rooting <=> separator or rooted tree wildcard); the trivalent operators meeting their Kleene / interval semantics (and(x, Sometimes) is never Always); the REAL components() splitting a concatenation into exactly its path components (bounded: 3 leaf tokens) and a one-literal component being semantic exactly when spelled `.` or `..`. The REAL fold and leaf term of Token::has_root (a Fold impl local to the function body, hoisted verbatim on every run): alternation = join of its branches, concatenation = its first token, repetition = its body weakened to 'never Always' when it may occur zero times; the REAL Starting sequencer hands a concatenation exactly its first token and an alternation every branch. Token::literals (tree search) is out of reach.",
         "The fold driver (T3), components() batching, the rule checker (no sometimes-rooted glob is built, C06) and the encoder (a rooted tree wildcard is encoded as rooted, C01) assumed."),
 "C13": ("proof", "Kani harness-stated contracts with a counting mock CancelWalk on the real filter.rs and walk combinators + Verus lemma",
         "Partial: WHEN the real code asks for cancellation: a tree verdict cancels the input exactly once unless the entry is already tree residue, never for a file verdict / keep / Err, at most once per entry across stacked layers, and cancellation is forwarded to the input unchanged by every combinator; for negations with a real program (all four program shapes, the regex engine abstracted to an arbitrary oracle) a tree is discarded exactly when the EXHAUSTIVE program matched. That walkdir's skip_current_dir then prunes exactly that directory is assumed.",
         "walkdir::IntoIter::skip_current_dir semantics, WalkTree::is_dir bookkeeping, the glob walker's component-matching closure, the regex engine (oracle) and the exhaustive / non-exhaustive partition of FilterAny::any (C09 at tree level) assumed (T4)."),
 "C15": ("proof", "Kani harness-stated contracts (window membership; Err passthrough of the real FilterEntry / Not over a mock input) + Verus verbatim pivot functions + Verus window lemma",
         "Depth window: pivot translation of minimum / maximum, the three constructors and the variance translation denote exactly the documented window for all usize inputs; an error item (a link that re-enters its ancestors is reported as one) passes through negations and entry filters unchanged (the combinators' Err clause, shared with C20).",
         "Known finding C15.max-below-pivot. walkdir min/max depth semantics (A15), link behaviour, cycle detection and termination assumed (T4)."),
 "C16": ("proof", "Kani harness-stated contracts on the real one-layer transition and combinators over a mock input in every state + Verus lemmas for stacks of any length and order",
         "One layer is the lattice join keep < file < tree with the payload preserved and the filter observing every non-Err entry exactly once (also entries already discarded upstream); two stacked real FilterEntry layers; Verus lemmas lift the one-layer contract to any stack and show order independence.",
         "The `filtrate` loop is bounded (<= 3 items); Not is exercised with the empty program only (regex is_match stubbed, unreachable); walkdir assumed."),
 "C17": ("proof", "Kani harness-stated contracts on span arithmetic, parse-error span, un-rooting",
         "Partial: the parse-error span lies on character boundaries inside the expression (fragment of <= 2 arbitrary characters), span union and un-rooting arithmetic stay inside the expression and delimit the right text, rule-error and capture spans are reported as stored; partition's pop_expression_bytes (hoisted from the function body) removes exactly the offset in BYTES (bounded: <= 4 bytes), and the REAL `expression:` arm of partition's result (hoisted as an expression on every run) shortens a borrowed and an owned expression by that same offset -- not by the token count that is also in scope (bounded: <= 4 bytes borrowed; one 4-byte expression owned). The REAL Glob::captures numbers exactly the capturing top-level tokens from 1 in expression order, each with the span stored for its own token (bounded: 3 leaf tokens). Token spans produced by pori and the rest of partition's body (offset sum, span rewrite closure) are assumed.",
         "pori::span (T4), the partition offset rewrite (a closure) and everything that builds spans from parser output assumed."),
 "C18": ("proof", "Kani harness-stated contracts over all of char against parser constants re-extracted each run + Verus verbatim predicates + Verus tokenisation lemma; escape bounded",
         "Meta-character set = parser stop set minus separator / backslash = escapable set, for every char, against constants re-read from the parser on every run; contextual set likewise; a Verus lemma shows escape-then-tokenise is the identity for any text without backslash; the structure of `escape` itself is only a bounded check (<= 2 ASCII characters).",
         "nom escaped_transform semantics (A18, T4); that the resulting glob matches only the text (C01) and reports invariant text (C11 upper part) not decided."),
 "C19": ("proof", "Kani harness-stated contracts on ownership conversions of leaves, the repetition-bound round trip and owned capture indexing",
         "Thin: into_owned of leaves preserves kind / text / flag; the REAL Repetition::decompose followed by the REAL compose (the step fold_map performs at every repetition) restores the bounds exactly, complete over usize x Option<usize>; OwnedText::get indexing; the REAL `expression:` arm of Tokenized::partition gives an owned expression (str::parse, into_owned) byte for byte the postfix it gives a borrowed one (bounded: one 4-byte expression, every offset). The fold_map driver itself, regex Captures conversion, Display / FromStr routes are assumed.",
         "fold_map driver (T3), From<&regex::Captures>, Display/FromStr/Pattern routes assumed; literal text bounded to 2 ASCII bytes."),
 "C20": ("proof", "Kani harness-stated contracts on the real FilterEntry / Not / transpose_filtrate over a mock input feeding Err items",
         "Partial: negations and entry filters pass Err items through unchanged (depth, kind), in place, without calling the filter and without cancelling; `filtrate` yields an Err like any other filtrate. WalkError::path() names the offending path (the link of a cycle, not its ancestor; the faulting path of an I/O error) and depth() the stored depth. Fault generation (walkdir / OS) and 'the remaining entries are those of a fault-free walk' are not decided.",
         "From<walkdir::Error>, WalkTree::next, the glob walker closure and the file system assumed."),
}
NA = {
 "C01": "acceptance is decided by regex::Regex on text produced by encode; Kani's compiler crashes (ICE on const_format constants) on any harness that reaches encode, Verus rejects its closures/macros, and a semantic contract would need a verified regex semantics; the parser is a nest of nom closures (DESIGN §5 C01)",
 "C02": "needs a directory tree, walkdir, compiled regexes and a regex-language inclusion; the component-alignment arithmetic sits in a closure and in std::path calls (symbolic depth: no result in 7 min); DirEntry cannot be constructed without a file system",
 "C03": "the equivalence pruning = per-entry filtering is C09 at tree level composed with two compiled regexes and a file system; its reachable kernels (residue -> cancellation, forwarding through Not) are decided under C13/C16/C20",
 "C04": "capture extents are the regex engine's; the group/token correspondence is a property of encode (see C01); what is reachable -- Glob::captures numbering exactly the capturing top-level tokens with their own spans, OwnedText::get -- is decided under C17 / C19",
 "C07": "each law is an equation between the languages of two outputs of encode (see C01)",
 "C08": "partition / invariant_text_prefix run through the generic fold driver and Text; Glob::partition recompiles a regex; measured again in the second round: the body of Tokenized::partition gives no verdict even with invariant_text_prefix, pop_prefix_tokens_with and fold_map replaced by stubs of their contracts (DESIGN 11.9); only the un-rooting span arithmetic and the nested pop_expression_bytes are reachable and are decided under C17",
 "C14": "entry types wrap walkdir::DirEntry (constructed only by reading a directory); join_and_get_depth / split_at_depth are std::path computations (symbolic: no result in 7 min; concrete: a test, not a proof)",
}
checks = []
for pid, (cat, tech, text, note) in sorted(CLAIMS.items()):
    checks.append({
        "property_id": pid,
        "quick_cmd": f"python3 tools/check.py {pid} --tier quick",
        "thorough_cmd": f"python3 tools/check.py {pid} --tier thorough",
        "evidence_file": f"evidence/{pid}.json",
        "replay_cmd_template": "python3 tools/check.py --replay {path}",
        "engine": "kani+verus",
        "level_claimed": {"category": cat, "text": text, "design_ref": f"DESIGN.md §5 {pid}"},
        "level_note": note,
        "technique": TECH + tech,
    })
m = {
 "version": 1,
 "setup_cmd": "python3 tools/setup.py",
 "hooks": {
  "guard": "cfg(kani) / cfg(verif_replay): set only by cargo-kani and by the native replay build of a scratch copy; no hook is committed to /repo",
  "enable": "python3 tools/check.py <id> copies /repo's working tree to a scratch directory, appends `#[cfg(any(kani, verif_replay))] #[path=...] pub(crate) mod verif_kani_<unit>;` lines (add-only, diff-checked each run) and runs `cargo kani` there; items nested in function bodies (rule::branch's tables, Token::has_root's Fold impl, partition's pop_expression_bytes) and one block expression (the `expression:` arm of partition's result) are copied verbatim from /repo into the harness module on every run (tools/vextract.py hoist-all / hoist-expr); Verus obligations extract the named functions verbatim from /repo on every run",
  "baseline_off_cmd": "cd /repo && cargo test --workspace --no-fail-fast --offline",
  "source_commits": [],
  "add_only": True,
 },
 "engines": [
  {"name": "kani", "path": "tools/vkani.py", "serves_properties": sorted(CLAIMS), "kind_free_text": "Kani 0.68 / CBMC 6.11 on a scratch copy of the real crate with injected harness modules; harness-stated contracts over full-domain symbolic inputs; counterexample playback + native replay"},
  {"name": "verus", "path": "tools/vverus.py", "serves_properties": ["C09", "C10", "C12", "C13", "C15", "C16", "C18"], "kind_free_text": "Verus 0.2026.09.13: functions extracted verbatim from /repo each run with requires/ensures spliced in; lemma layer over the contract vocabulary"},
 ],
 "checks": checks,
 "notes": "exit 0 = every obligation discharged (known findings print KNOWN-FINDING); exit 1 = VIOLATION (replay file under replays/); exit 2 = undecided (lost anchor, timeout, harness no longer compiles) - never an alarm. Fix commits in /repo: 4c4db61 (F1), e528503 (F3), 7a28cc6 (F2), faf428a (F4), e11552a (F5); see known_findings.json.",
 "not_applicable": [{"property_id": k, "reason": v} for k, v in sorted(NA.items())],
}
open(os.path.join(os.path.dirname(__file__), "..", "MANIFEST.json"), "w").write(json.dumps(m, indent=1) + "\n")
print("MANIFEST.json written:", len(checks), "checks,", len(NA), "not applicable")
