#!/usr/bin/env python3
"""Regenerate seeded/README.md from the meta.json of every seed directory."""
import json
from pathlib import Path
V = Path(__file__).resolve().parent.parent
rows = []
for d in sorted((V / "seeded").iterdir()):
    m = d / "meta.json"
    if not m.exists():
        continue
    j = json.loads(m.read_text())
    cr = j.get("check_run", {})
    if "checks" in cr:
        failed = sorted({o for c in cr["checks"].values() for o in c.get("failed_obligations", [])})
        exits = [c["exit"] for c in cr["checks"].values()]
    else:
        failed = sorted(set(cr.get("failed_obligations", [])))
        exits = [cr.get("exit")]
    status = "caught" if j.get("detected") else ("not decided (exit 2)" if exits and all(e == 2 for e in exits if e is not None) and any(e == 2 for e in exits) else "missed")
    if not j.get("detected") and 2 in exits and 0 not in exits:
        status = "not decided (exit 2)"
    need = (j.get("needs_to_manifest") or "").replace("|", "\\|").replace("\n", " ")[:150]
    rows.append(f"| {j['id']} | {j['property']} | {status} | {', '.join(failed[:6])} | {need} |")
caught = sum(1 for r in rows if "| caught |" in r)
text = f"""# Seeded changes

Each directory: `patch.diff` (the change), `demo.rs` (fails with / passes without it), `notes.md` (the sub-agent's notes), `confirm.json` (my confirmation in a fresh worktree), `detect.json` (the run of the registered quick check(s) against the patched tree), `meta.json`.
`refactorings/` holds 17 behaviour-preserving edits and `RESULTS.md` (no alarm on any of them). See DESIGN.md §10.6, §10.9–10.11 and §11.10 (rounds `-3A/-3B`, `-4A/-4B`).

The status column is the result of the run recorded in `detect.json` / `meta.json`; several seeds were re-run after the machinery was strengthened (DESIGN lists which). {len(rows)} seeded changes, {caught} caught. Regenerate with `python3 tools/seed_readme.py`.

| seed | property | quick check | obligations that failed | needs to manifest |
|---|---|---|---|---|
""" + "\n".join(rows) + "\n"
(V / "seeded" / "README.md").write_text(text)
print(len(rows), "seeds,", caught, "caught")
