#!/usr/bin/env python3
"""Mechanical scan of the contract sources for everything that is assumed rather than proved.

Every hit must be covered by a line of contracts/ASSUMPTIONS.md (allow-list, reviewed by hand):
`<file>: <token> -- reason`. A hit that is not covered makes the run UNDECIDED (exit 2).
"""
import re
import sys
from pathlib import Path

VERIF = Path(__file__).resolve().parent.parent
TOKENS = [
    r"kani::assume\(", r"vassume!\(", r"//@\s*stub:", r"//@\s*stub_verified:", r"kani::stub", r"stub_verified",
    r"assume_specification", r"external_body", r"\badmit\(", r"(?<![:\w])assume\(", r"external_fn_specification", r"#\[verifier::external",
    r"\bunsafe\b",
]


def allow():
    p = VERIF / "contracts" / "ASSUMPTIONS.md"
    out = []
    if p.exists():
        for l in p.read_text().split("\n"):
            m = re.match(r"^- `([^`]+)`: `([^`]+)` -- (.*)$", l)
            if m:
                out.append((m.group(1), m.group(2), m.group(3)))
    return out


def scan(kani_units, verus_units):
    from vlib import Undecided
    files = [VERIF / "contracts" / "kani" / "prelude.rs"]
    files += [VERIF / "contracts" / "kani" / f"{u}.rs" for u in kani_units]
    files += [VERIF / "contracts" / "verus" / f"{u}.rsin" for u in verus_units]
    al = allow()
    res, missing = [], []
    for f in files:
        if not f.exists():
            continue
        rel = str(f.relative_to(VERIF))
        text = f.read_text()
        counts = {}
        for t in TOKENS:
            n = len(re.findall(t, text))
            if n:
                counts[t] = n
        for t, n in counts.items():
            tok = t.replace("\\(", "(").replace("\\b", "").replace("\\s*", " ").replace("\\[", "[")
            cov = [a for a in al if a[0] == rel and a[1] == tok]
            if cov:
                res.append(f"{rel}: {tok} x{n} -- {cov[0][2]}")
            else:
                missing.append(f"{rel}: {tok} x{n}")
    if missing:
        raise Undecided("assumption scan: not in contracts/ASSUMPTIONS.md allow-list: " + "; ".join(missing))
    return res


if __name__ == "__main__":
    sys.path.insert(0, str(VERIF / "tools"))
    import vlib
    import vverus
    ku = vlib.all_units()
    vu = sorted({o["unit"] for o in vverus.load_obligations()})
    for l in scan(ku, vu):
        print(l)
