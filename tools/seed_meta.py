#!/usr/bin/env python3
"""seed_meta.py <seed-dir> [...]: rebuild meta.json of imported seeds from confirm.json + detect.json
(after a re-run of tools/seed.py confirm / run). Not a registered check."""
import json, sys
from pathlib import Path
for d in map(Path, sys.argv[1:]):
    conf = json.loads((d / "confirm.json").read_text()) if (d / "confirm.json").exists() else {}
    det = json.loads((d / "detect.json").read_text()) if (d / "detect.json").exists() else {}
    old = json.loads((d / "meta.json").read_text()) if (d / "meta.json").exists() else {}
    notes = (d / "notes.md").read_text() if (d / "notes.md").exists() else ""
    prop, rnd = d.name.split("-")[0], d.name.split("-")[1][0]
    meta = {
        "id": d.name, "property": prop, "round": int(rnd) if rnd.isdigit() else 1,
        "source": old.get("source", "fresh sub-agent given only the property text (no file hints) and its own scratch worktree of /repo HEAD"),
        "needs_to_manifest": old.get("needs_to_manifest") or next((l.strip() for l in notes.split("\n") if "need" in l.lower()), ""),
        "files": {"patch": "patch.diff", "demonstration": "demo.rs (placed at tests/demo.rs; cargo test --offline --test demo)", "agent_notes": "notes.md"},
        "confirmed_by_me": {"how": "tools/seed.py confirm (fresh worktree of /repo HEAD: demo passes without, suite passes with, demo fails with the patch)",
                            "result": conf.get("confirmed"), "suite_with_patch": (conf.get("suite_with_patch") or {}).get("results")},
        "check_run": {"how": f"tools/seed.py run --worktree {det.get('target')}: patch applied to a clean worktree of /repo HEAD, quick checks with VERIF_REPO pointing at it",
                      "checks": {p: {"exit": c["exit"], "violations": c["violations"], "failed_obligations": [o["obligation"] for o in c["failed_obligations"]], "undecided": c["undecided"]} for p, c in det.get("checks", {}).items()}},
        "detected": bool(det.get("detected_by")),
    }
    (d / "meta.json").write_text(json.dumps(meta, indent=1) + "\n")
    print(d.name, "confirmed", meta["confirmed_by_me"]["result"], "detected", meta["detected"], {p: (c["exit"], c["failed_obligations"][:4]) for p, c in meta["check_run"]["checks"].items()})
