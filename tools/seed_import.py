#!/usr/bin/env python3
"""seed_import.py <agent-worktree> <property> <round> [--props P1 P2 ...] [--clean /tmp/clean]

Imports the two changes a seed sub-agent left in <agent-worktree>/out (A.diff, A_demo.rs, A_notes.md,
B...) as seeded/<property>-<round>A / -<round>B, confirms each in a fresh worktree (tools/seed.py
confirm), runs the registered quick check of the listed properties against a clean worktree with the
patch applied (tools/seed.py run --worktree), and writes meta.json. Not a registered check."""
import argparse, json, shutil, subprocess, sys
from pathlib import Path
VERIF = Path(__file__).resolve().parent.parent

def main():
    ap = argparse.ArgumentParser()
    ap.add_argument("wt"); ap.add_argument("prop"); ap.add_argument("round")
    ap.add_argument("--props", nargs="*"); ap.add_argument("--clean", default="/tmp/clean")
    ap.add_argument("--only", default="AB")
    a = ap.parse_args()
    props = a.props or [a.prop]
    for x in a.only:
        src = Path(a.wt) / "out"
        if not (src / f"{x}.diff").exists():
            print(f"{a.prop}-{a.round}{x}: no {x}.diff"); continue
        d = VERIF / "seeded" / f"{a.prop}-{a.round}{x}"
        d.mkdir(parents=True, exist_ok=True)
        shutil.copy(src / f"{x}.diff", d / "patch.diff")
        shutil.copy(src / f"{x}_demo.rs", d / "demo.rs")
        if (src / f"{x}_notes.md").exists():
            shutil.copy(src / f"{x}_notes.md", d / "notes.md")
        rc = subprocess.run([sys.executable, str(VERIF / "tools/seed.py"), "confirm", str(d)], capture_output=True, text=True)
        conf = json.loads((d / "confirm.json").read_text()) if (d / "confirm.json").exists() else {}
        print(f"{d.name}: confirmed={conf.get('confirmed')}")
        det = {}
        if conf.get("confirmed"):
            subprocess.run([sys.executable, str(VERIF / "tools/seed.py"), "run", str(d)] + props + ["--worktree", a.clean], capture_output=True, text=True)
            det = json.loads((d / "detect.json").read_text()) if (d / "detect.json").exists() else {}
        notes = (d / "notes.md").read_text() if (d / "notes.md").exists() else ""
        meta = {
            "id": d.name, "property": a.prop, "round": int(a.round),
            "source": "fresh sub-agent given only the property text (no file hints) and its own scratch worktree of /repo HEAD",
            "needs_to_manifest": next((l.strip() for l in notes.split("\n") if "need" in l.lower()), ""),
            "files": {"patch": "patch.diff", "demonstration": "demo.rs (placed at tests/demo.rs; cargo test --offline --test demo)", "agent_notes": "notes.md"},
            "confirmed_by_me": {"how": "tools/seed.py confirm (fresh worktree: demo passes without, suite passes with, demo fails with the patch)",
                                "result": conf.get("confirmed"), "suite_with_patch": (conf.get("suite_with_patch") or {}).get("results")},
            "check_run": {"how": f"tools/seed.py run --worktree {a.clean}: patch applied to a clean worktree of /repo HEAD, quick checks of {props} with VERIF_REPO pointing at it",
                          "checks": {p: {"exit": c["exit"], "violations": c["violations"], "failed_obligations": [o["obligation"] for o in c["failed_obligations"]], "undecided": c["undecided"]} for p, c in det.get("checks", {}).items()}},
            "detected": bool(det.get("detected_by")),
        }
        (d / "meta.json").write_text(json.dumps(meta, indent=1) + "\n")
        print(f"{d.name}: detected_by={det.get('detected_by')} " + "; ".join(f"{p}: exit {c['exit']} {[o['obligation'] for o in c['failed_obligations']]}" for p, c in det.get("checks", {}).items()))

if __name__ == "__main__":
    main()
