#!/usr/bin/env python3
"""Seeded-change bookkeeping (not a registered check).

seed.py confirm <seed-dir> [--demo-dest tests/demo.rs]
    In a fresh scratch worktree of /repo HEAD: (1) the demonstration passes WITHOUT the patch,
    (2) the patch applies, the crate compiles and the whole existing suite passes WITH it,
    (3) the demonstration fails WITH it. Writes <seed-dir>/confirm.json.
seed.py run <seed-dir> <property> [<property> ...] [--tier quick|thorough]
    Applies <seed-dir>/patch.diff to /repo (must be clean), runs the registered check of each
    property, restores /repo, and records exit codes / VIOLATION lines in <seed-dir>/detect.json.
"""
import argparse
import json
import os
import re
import shutil
import subprocess
import sys
import time
from pathlib import Path

REPO = Path("/repo")
VERIF = Path(__file__).resolve().parent.parent


def sh(cmd, cwd=None, timeout=3600, env=None):
    e = dict(os.environ)
    e["CARGO_NET_OFFLINE"] = "true"
    if env:
        e.update(env)
    p = subprocess.run(cmd, cwd=cwd, shell=True, capture_output=True, text=True, timeout=timeout, env=e, errors="replace")
    return p.returncode, p.stdout + p.stderr


def confirm(seed, demo_dest):
    seed = Path(seed).resolve()
    wt = Path(f"/tmp/confirm_{seed.name}_{os.getpid()}")
    res = {"seed": seed.name, "at": time.strftime("%Y-%m-%dT%H:%M:%SZ", time.gmtime())}
    rc, out = sh(f"git -C {REPO} worktree add -q --detach {wt} HEAD")
    if rc != 0:
        print(out)
        return 2
    try:
        demo = seed / "demo.rs"
        dest = wt / demo_dest
        dest.parent.mkdir(parents=True, exist_ok=True)
        shutil.copy(demo, dest)
        test_name = dest.stem
        run_demo = f"cargo test --offline --test {test_name}" if demo_dest.startswith("tests/") else "cargo test --offline --lib demo"
        rc0, out0 = sh(run_demo, cwd=wt)
        res["demo_without_patch"] = {"rc": rc0, "tail": out0[-600:]}
        rc, out = sh(f"git apply {seed / 'patch.diff'}", cwd=wt)
        res["apply"] = {"rc": rc, "out": out[-300:]}
        dest.unlink()
        rc1, out1 = sh("cargo test --workspace --no-fail-fast --offline", cwd=wt)
        results = re.findall(r"test result: (\w+)\. (\d+) passed; (\d+) failed", out1)
        res["suite_with_patch"] = {"rc": rc1, "results": results}
        shutil.copy(demo, dest)
        rc2, out2 = sh(run_demo, cwd=wt)
        res["demo_with_patch"] = {"rc": rc2, "tail": out2[-900:]}
        res["confirmed"] = bool(rc0 == 0 and res["apply"]["rc"] == 0 and rc1 == 0 and results and int(results[0][1]) >= 468 and rc2 != 0)
    finally:
        sh(f"git -C {REPO} worktree remove --force {wt}")
        shutil.rmtree(wt, ignore_errors=True)
    (seed / "confirm.json").write_text(json.dumps(res, indent=1) + "\n")
    print(json.dumps({k: (v if not isinstance(v, dict) else {kk: vv for kk, vv in v.items() if kk != "tail"}) for k, v in res.items()}, indent=1))
    return 0 if res.get("confirmed") else 1


def run(seed, props, tier, wt=None):
    """wt: a clean worktree of /repo HEAD to apply the patch to (the checks then run with VERIF_REPO=wt
    and VERIF_OUT redirected, so /repo and the committed evidence stay untouched); default: /repo itself."""
    seed = Path(seed).resolve()
    target = Path(wt) if wt else REPO
    rc, out = sh(f"git -C {target} status --porcelain --untracked-files=no")
    if out.strip():
        print(f"refusing: {target} has uncommitted changes")
        return 2
    rc, out = sh(f"git -C {target} apply {seed / 'patch.diff'}")
    if rc != 0:
        print("patch does not apply:", out)
        return 2
    env = {"VERIF_REPO": str(target), "VERIF_OUT": f"/var/tmp/seed_out_{os.getpid()}"} if wt else None
    det = {"seed": seed.name, "tier": tier, "checks": {}, "target": str(target)}
    try:
        for p in props:
            t0 = time.time()
            rc, out = sh(f"python3 tools/check.py {p} --tier {tier}", cwd=VERIF, timeout=7200, env=env)
            viol = [l for l in out.split("\n") if l.startswith("VIOLATION")]
            und = [l for l in out.split("\n") if l.startswith("UNDECIDED")]
            obs = []
            for v in viol:
                m = re.search(r"replay=(\S+)", v)
                if m and Path(m.group(1)).exists():
                    r = json.loads(Path(m.group(1)).read_text())
                    obs.append({"obligation": r["obligation"], "inputs": r.get("inputs"), "reproduced_natively": (r.get("native_replay") or {}).get("reproduced"),
                                "failed_checks": [c["description"] for c in r.get("failed_checks", [])][:3]})
            det["checks"][p] = {"exit": rc, "violations": viol, "undecided": und[:5], "failed_obligations": obs, "wall_s": round(time.time() - t0, 1)}
            print(p, "exit", rc, viol, und[:2])
    finally:
        sh(f"git -C {target} checkout -- .")
        if wt:
            shutil.rmtree(f"/var/tmp/seed_out_{os.getpid()}", ignore_errors=True)
    det["detected_by"] = [p for p, c in det["checks"].items() if c["exit"] == 1]
    (seed / "detect.json").write_text(json.dumps(det, indent=1) + "\n")
    return 0


if __name__ == "__main__":
    ap = argparse.ArgumentParser()
    ap.add_argument("cmd", choices=["confirm", "run"])
    ap.add_argument("seed")
    ap.add_argument("props", nargs="*")
    ap.add_argument("--tier", default="quick")
    ap.add_argument("--demo-dest", default="tests/demo.rs")
    ap.add_argument("--worktree", default=None)
    a = ap.parse_args()
    sys.exit(confirm(a.seed, a.demo_dest) if a.cmd == "confirm" else run(a.seed, a.props, a.tier, a.worktree))
