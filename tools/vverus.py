#!/usr/bin/env python3
"""Verus back end (verbatim extraction + lemma layer)."""
def load_obligations():
    return []
def run_obligations(vobs, prop):
    return {"results": [], "undecided": [], "violations": [], "cmds": []}
