#!/usr/bin/env python3
"""Verus back end.

V-a  verbatim extraction: `//@extract-fn` directives in contracts/verus/<unit>.rsin name a function
     of /repo by (file, impl header line, normalised signature). On every run the text of that
     function is copied out of /repo's CURRENT source -- the body byte-identical -- and the
     `requires/ensures` given in the template are spliced between signature and body.
     Dropped by extraction, exactly: doc comments and attributes above the function, every item of
     the file that is not named; the return type `-> T` is rewritten to `-> (r: T)` so that the
     contract can name the result. Nothing inside a body is touched.
V-b  lemma layer: `proof fn`s over the shared vocabulary (do not depend on /repo).

Attribution (measured: --output-json only carries totals): an obligation is DISCHARGED when no
diagnostic of the run points into its line range of the assembled file AND Verus' totals are
consistent (errors == number of obligations with a diagnostic, verified >= 1).
"""
import json
import os
import re
import shutil
import subprocess
import time
from pathlib import Path

import vlib
from vlib import Undecided, VERIF, REPO

VDIR = VERIF / "contracts" / "verus"


def units():
    return sorted(p.stem for p in VDIR.glob("*.rsin"))


def parse_unit(unit):
    text = (VDIR / f"{unit}.rsin").read_text()
    lines = text.split("\n")
    obs = []
    cur = None
    for i, l in enumerate(lines):
        m = re.match(r"\s*//@ob\s+(\S+)\s*$", l)
        if m:
            cur = {"id": m.group(1), "unit": unit, "props": [], "kind": "lemma", "fns": [], "post": "", "pre": "", "line": i, "twin": None}
            obs.append(cur)
            continue
        m = re.match(r"\s*//@\s*(props|kind|fns|post|pre|twin):\s*(.*)$", l)
        if m and cur is not None:
            k, v = m.group(1), m.group(2).strip()
            if k == "props":
                cur["props"] = v.split()
            elif k == "kind":
                cur["kind"] = v
            elif k == "fns":
                cur["fns"] = [] if v == "-" else v.split()
            elif k == "twin":
                cur["twin"] = v
            else:
                cur[k] = (cur[k] + " " + v).strip()
    for o in obs:
        if not o["props"] or not o["post"]:
            raise Undecided(f"{unit}.rsin: obligation {o['id']} needs props and post")
    return obs


def load_obligations():
    out = []
    for u in units():
        out += parse_unit(u)
    return out


def norm(s):
    return re.sub(r"\s+", " ", s).strip()


def extract_fn(relfile, impl, signature):
    """Return (signature_text, body_text, line_no) of the named function in /repo's current source."""
    p = REPO / relfile
    if not p.exists():
        raise Undecided(f"anchor lost: {relfile}")
    text = p.read_text()
    start = 0
    if impl != "-":
        hits = [m.start() for m in re.finditer(r"^" + re.escape(impl) + r"\s*$", text, re.M)]
        if len(hits) != 1:
            raise Undecided(f"anchor lost: impl header {impl!r} occurs {len(hits)} times in {relfile}")
        start = hits[0]
        # end of this impl block
        b = text.index("{", start)
        end = _match_brace(text, b)
    else:
        end = len(text)
    name = re.search(r"\bfn\s+(\w+)", signature).group(1)
    cands = []
    for m in re.finditer(r"^[ \t]*((?:pub(?:\([a-z]+\))?\s+)?(?:const\s+)?fn\s+" + re.escape(name) + r"\b[^{;]*)\{", text[start:end], re.M):
        if norm(m.group(1)) == norm(signature):
            cands.append(m)
    if len(cands) != 1:
        raise Undecided(f"anchor lost: fn {signature!r} matches {len(cands)} times in {relfile} ({impl})")
    m = cands[0]
    b = start + m.end() - 1
    e = _match_brace(text, b)
    body = text[b:e + 1]
    line = text[:start + m.start()].count("\n") + 1
    return m.group(1).strip(), body, line


def extract_item(relfile, header):
    """A type definition (enum / struct) named by its exact header line; braces balanced or `;`-terminated."""
    p = REPO / relfile
    if not p.exists():
        raise Undecided(f"anchor lost: {relfile}")
    text = p.read_text()
    hits = [m for m in re.finditer(r"^" + re.escape(header) + r"[ \t]*$", text, re.M)]
    if len(hits) != 1:
        raise Undecided(f"anchor lost: item {header!r} occurs {len(hits)} times in {relfile}")
    m = hits[0]
    line = text[:m.start()].count("\n") + 1
    if header.rstrip().endswith(";"):
        return text[m.start():m.end()], line
    b = text.index("{", m.start())
    e = _match_brace(text, b)
    return text[m.start():e + 1], line


def _match_brace(text, b):
    depth = 0
    i = b
    in_str = None
    while i < len(text):
        c = text[i]
        if in_str:
            if c == "\\":
                i += 2
                continue
            if c == in_str:
                in_str = None
        elif c == '"':
            in_str = '"'
        elif c == "'" and re.match(r"'(\\.|[^\\'])'", text[i:i + 4]):
            i += len(re.match(r"'(\\.|[^\\'])'", text[i:i + 4]).group(0)) - 1
        elif c == "/" and text[i:i + 2] == "//":
            i = text.index("\n", i)
            continue
        elif c == "{":
            depth += 1
        elif c == "}":
            depth -= 1
            if depth == 0:
                return i
        i += 1
    raise Undecided("unbalanced braces while extracting")


def assemble(unit):
    """Expand //@extract-fn directives. Returns (text, ranges{ob_id: (lo, hi)}, extracted[list])."""
    src = (VDIR / f"{unit}.rsin").read_text().split("\n")
    out = []
    extracted = []
    i = 0
    while i < len(src):
        l = src[i]
        mi = re.match(r"(\s*)//@extract-item\s+(.*?)\s*\|\s*(.*?)\s*$", l)
        if mi:
            indent, relfile, header = mi.groups()
            item, line = extract_item(relfile, header)
            out.append(f"{indent}// ---- extracted verbatim from {relfile}:{line} (attributes and doc comments above it dropped) ----")
            out.append(item)
            out.append(f"{indent}// ---- end of extracted item ----")
            extracted.append({"file": relfile, "line": line, "impl": "-", "signature": norm(header), "body_sha": __import__("hashlib").sha256(item.encode()).hexdigest()[:12]})
            i += 1
            continue
        m = re.match(r"(\s*)//@extract-fn\s+(.*?)\s*\|\s*(.*?)\s*\|\s*(.*?)\s*$", l)
        if not m:
            out.append(l)
            i += 1
            continue
        indent, relfile, impl, signature = m.groups()
        # optional //@ret and //@spec ... //@end
        ret = None
        spec = []
        rewrites = []
        i += 1
        while i < len(src):
            mm = re.match(r"\s*//@ret\s+(\w+)\s*$", src[i])
            if mm:
                ret = mm.group(1)
                i += 1
                continue
            mw = re.match(r"\s*//@rewrite-signature\s+(.*?)\s*=>\s*(.*?)\s*$", src[i])
            if mw:
                rewrites.append((mw.group(1), mw.group(2)))
                i += 1
                continue
            if re.match(r"\s*//@spec\s*$", src[i]):
                i += 1
                while not re.match(r"\s*//@end\s*$", src[i]):
                    spec.append(src[i])
                    i += 1
                i += 1
                continue
            break
        sig, body, line = extract_fn(relfile, impl, signature)
        for a, b in rewrites:
            if a not in sig:
                raise Undecided(f"signature rewrite {a!r} does not apply to {sig!r}")
            sig = sig.replace(a, b)
        if ret:
            mr = re.search(r"->\s*(.+)$", sig)
            if not mr:
                raise Undecided(f"fn {signature!r} has no return type to bind")
            sig = sig[:mr.start()] + f"-> ({ret}: {mr.group(1).strip()})"
        out.append(f"{indent}// ---- extracted verbatim from {relfile}:{line} ----")
        out.append(indent + sig)
        out += spec
        # re-indent nothing: the body is byte-identical
        out.append(body)
        out.append(f"{indent}// ---- end of extracted function ----")
        extracted.append({"file": relfile, "line": line, "impl": impl, "signature": norm(signature), "body_sha": __import__("hashlib").sha256(body.encode()).hexdigest()[:12]})
    text = "\n".join(out)
    # obligation ranges in the assembled file
    ranges = {}
    lines = text.split("\n")
    marks = [(n, re.match(r"\s*//@ob\s+(\S+)", l).group(1)) for n, l in enumerate(lines) if re.match(r"\s*//@ob\s+\S+", l)]
    ends = [n for n, l in enumerate(lines) if re.match(r"\s*//@ob-end\s*$", l)]
    for k, (n, oid) in enumerate(marks):
        nxt = marks[k + 1][0] if k + 1 < len(marks) else len(lines)
        e = min([x for x in ends if x > n] + [nxt])
        ranges[oid] = (n + 1, e + 1)  # 1-based inclusive-ish
    return text, ranges, extracted


def run_obligations(vobs, prop):
    out = {"results": [], "undecided": [], "violations": [], "cmds": []}
    by_unit = {}
    for o in vobs:
        by_unit.setdefault(o["unit"], []).append(o)
    work = vlib.SCRATCH_BASE / f"wax-verif.verus.{prop}.{os.getpid()}"
    if work.exists():
        shutil.rmtree(work)
    work.mkdir(parents=True)
    try:
        for unit, obs in by_unit.items():
            all_unit_obs = parse_unit(unit)
            text, ranges, extracted = assemble(unit)
            f = work / f"{unit}.rs"
            f.write_text(text)
            cmd = ["verus", str(f), "--output-json", "--time", "--crate-type", "lib"]
            t0 = time.time()
            rc, so, se, wall = vlib.sh(cmd, cwd=work, timeout=600)
            out["cmds"].append(f"verus <assembled {unit}.rs> --output-json --time --crate-type lib")
            log = vlib.out_dir("evidence") / "logs"
            log.mkdir(parents=True, exist_ok=True)
            (log / f"{prop}.verus.{unit}.log").write_text(so + "\n----stderr----\n" + se)
            (log / f"{prop}.verus.{unit}.rs").write_text(text)
            try:
                j = json.loads(so[so.index("{"):])
                vr = j["verification-results"]
            except Exception:
                out["undecided"].append(f"verus gave no JSON result for {unit} (rc={rc}): {se[-300:]}")
                for o in obs:
                    out["results"].append(result(o, "UNDECIDED", None, extracted))
                continue
            total_s = (j.get("times-ms", {}).get("total", 0) or 0) / 1000.0
            # diagnostics -> lines
            diag_lines = [int(m.group(1)) for m in re.finditer(r"-->\s*" + re.escape(str(f)) + r":(\d+):\d+", se)]
            err_msgs = re.findall(r"^error(?:\[\w+\])?: (.*)$", se, re.M)
            hit = {}
            stray = []
            for dl in diag_lines:
                owner = [oid for oid, (lo, hi) in ranges.items() if lo <= dl < hi]
                if owner:
                    hit.setdefault(owner[0], []).append(dl)
                else:
                    stray.append(dl)
            # only "error" diagnostics count; verus prints notes with --> too, so use error blocks
            err_blocks = re.findall(r"^error(?:\[\w+\])?: .*?(?=^error|^warning|\Z)", se, re.M | re.S)
            hit = {}
            stray = []
            for blk in err_blocks:
                if blk.startswith("error: aborting") or "could not compile" in blk:
                    continue
                ls = [int(m.group(1)) for m in re.finditer(r"-->\s*" + re.escape(str(f)) + r":(\d+):\d+", blk)][:1]  # primary span only
                owners = {oid for dl in ls for oid, (lo, hi) in ranges.items() if lo <= dl < hi}
                if len(owners) >= 1:
                    for oid in owners:
                        hit.setdefault(oid, []).append(blk.split("\n")[0])
                else:
                    stray.append(blk.split("\n")[0])
            compile_fail = vr.get("encountered-vir-error") or ("verified" not in vr) or bool(re.search(r"^error\[E\d+\]", se, re.M)) \
                or "Could not automatically infer triggers" in se
            if compile_fail:
                first = re.search(r"^error.*(\n.*){0,3}", se, re.M)
                out["undecided"].append(f"VERUS-SUBSET {unit}: assembled Verus file for {unit} does not compile / was not verified: {first.group(0) if first else vr}")
                out.setdefault("compile_failed_units", []).append(unit)
            consistent = (not stray) and (not compile_fail) and vr.get("errors", 0) == len(hit) and (vr.get("verified", 0) + vr.get("errors", 0)) >= 1
            ids_in_unit = {o["id"] for o in all_unit_obs}
            canaries = [o for o in all_unit_obs if o["kind"] == "canary"]
            for c in canaries:
                if c["id"] not in hit and not compile_fail:
                    consistent = False
                    out["undecided"].append(f"{c['id']}: Verus canary (ensures false) was not rejected")
            if not consistent and not compile_fail and not any("canary" in u for u in out["undecided"]):
                out["undecided"].append(f"verus run for {unit} not attributable: totals {vr}, stray diagnostics {stray[:3]}, rc={rc}")
            for o in obs + [c for c in canaries if c not in obs]:
                if not consistent:
                    out["results"].append(result(o, "UNDECIDED", total_s, extracted))
                    continue
                if o["kind"] == "canary":
                    r = result(o, "CANARY-FAILED-AS-REQUIRED", total_s, extracted)
                    r["raw_status"] = "FAILED"
                    out["results"].append(r)
                    continue
                if o["id"] in hit:
                    r = result(o, "FAILED", total_s, extracted)
                    r["failed_checks"] = [{"description": d, "file": f"contracts/verus/{unit}.rsin", "line": 0, "function": o["id"]} for d in hit[o["id"]]]
                    out["results"].append(r)
                    rec = {
                        "property": prop, "obligation": o["id"], "unit": unit, "verifier": "verus-0.2026.09.13",
                        "functions": o["fns"], "pre": o["pre"], "post": o["post"],
                        "failed_checks": r["failed_checks"],
                        "verifier_output": [b for b in err_blocks if any(h in b for h in hit[o["id"]])][:4],
                        "inputs": None, "has_input": False,
                        "note": "Verus yields no counterexample; the Kani obligation with the same contract (if any) carries the failing input",
                        "repo_tree": vlib.repo_fingerprint(),
                    }
                    d = vlib.out_dir("replays")
                    d.mkdir(exist_ok=True)
                    pth = d / f"{o['id']}.json"
                    rec["replay"] = str(pth)
                    pth.write_text(json.dumps(rec, indent=1) + "\n")
                    out["violations"].append(rec)
                else:
                    out["results"].append(result(o, "DISCHARGED", total_s, extracted))
    finally:
        shutil.rmtree(work, ignore_errors=True)
    return out


def result(o, status, solver_s, extracted):
    return {
        "id": o["id"], "harness": o["id"], "backend": "verus-0.2026.09.13/z3", "kind": "complete" if o["kind"] in ("verbatim", "lemma") else o["kind"],
        "bound": "", "role": o["kind"], "region": None, "functions": o["fns"], "pre": o["pre"], "post": o["post"], "inputs": [],
        "counts": o["kind"] != "canary", "status": status, "raw_status": "SUCCESSFUL" if status == "DISCHARGED" else status,
        "checks": None, "covers": None, "solver_s": solver_s, "failed_checks": [],
        "twin": o.get("twin"), "unit": o["unit"],
        "extracted": [e for e in extracted if any(e["file"] in f for f in o["fns"])] if o["kind"] == "verbatim" else [],
    }
