#!/usr/bin/env python3
"""Systematic mutants of functions under contract (not a registered check).

For each target (file, line range, properties) simple operators are applied line by line; a mutant
that still compiles and passes the existing test suite is run against the quick checks of the mapped
properties (on a clean worktree, VERIF_REPO). Surviving mutants point at weak contracts (or at
equivalent mutants, which have to be judged by hand). Results: mutants/RESULTS.jsonl."""
import json, os, re, subprocess, sys, time, random
from pathlib import Path
VERIF = Path(__file__).resolve().parent.parent
WT = Path(os.environ.get("MUT_WT", "/tmp/clean"))
OUT = VERIF / "mutants"
OPS = [
    (r"saturating_sub", "wrapping_sub"), (r"checked_add\(([^)]*)\)\s*\.expect\([^)]*\)", r"saturating_add(\1)"),
    (r"cmp::min", "cmp::max"), (r"cmp::max", "cmp::min"),
    (r" <= ", " < "), (r" < ", " <= "), (r" >= ", " > "), (r" > ", " >= "), (r" == ", " != "), (r" != ", " == "),
    (r" && ", " || "), (r" \|\| ", " && "),
    (r"\bLower\(", "Upper("), (r"\bUpper\(", "Lower("),
    (r"TreeResidue::Node\(", "TreeResidue::Tree("), (r"TreeResidue::Tree\(", "TreeResidue::Node("),
    (r"=> Neither\((\w+)\)", r"=> Left(\1)"), (r"Neither\(Closed\)", "Neither(Last)"), (r"Neither\(Last\)", "Neither(Open)"), (r"Neither\(First\)", "Neither(Closed)"), (r"Neither\(Open\)", "Neither(First)"),
    (r"Left\(Closed\)", "Left(Last)"), (r"Left\(Last\)", "Left(Closed)"), (r"Right\(Closed\)", "Right(First)"), (r"Right\(First\)", "Right(Closed)"),
    (r"=> Always,", "=> Sometimes,"), (r"=> Never,", "=> Sometimes,"), (r"=> Sometimes,", "=> Always,"),
    (r"\bSome\(0\)", "Some(1)"), (r"\+ 1\b", "+ 0"), (r"- 1\b", "- 0"), (r"\btrue\b", "false"), (r"\bfalse\b", "true"),
    (r"\.0\.saturating_add\(", ".0.wrapping_add("), (r"Variant\(Unbounded\)", "Invariant(Zero)"),
    (r"One::one\(\)", "Zero::zero()"), (r"Zero::zero\(\)", "One::one()"),
    (r"cancellation\.cancel_walk_tree\(\);", "let _ = cancellation;"),
    (r"lhs\.finalize\(\)", "lhs.1"), (r"rhs\.finalize\(\)", "rhs.1"),
    (r"has_ending_", "has_starting_"), (r"has_starting_", "has_ending_"), (r"_boundary\(", "_zom("), (r"_zom\(", "_boundary("),
    (r"When::or\b", "When::certainty"), (r"When::certainty\b", "When::or"), (r"When::Sometimes", "When::Always"),
    (r"if left\.is_none\(\)", "if left.is_some()"), (r"\(left\)", "(right)"), (r"\(right\)", "(left)"),
    (r"Composition::Conjunctive\(_\) => 1,", "Composition::Conjunctive(_) => 2,"), (r"\.take\(n\)", ".skip(n)"), (r"saturating_sub\(1\)", "saturating_sub(2)"),
    (r"AdjacentBoundary", "AdjacentZeroOrMore"), (r"SingularTree", "SingularZeroOrMore"),
    (r"has_root: true", "has_root: false"), (r"Separator\(_\)", "Wildcard(Tree { .. })"),
    (r"LinkCycle \{ ref leaf, \.\. \} => Some\(leaf", "LinkCycle { ref root, .. } => Some(root"),
    (r'is_not\("\*\$"\)', 'is_not("$")'), (r"\.filter\(\|token\| token\.is_capturing\(\)\)", ".filter(|token| !token.is_boundary())"),
]
TARGETS = [
    ("src/token/variance/natural.rs", 206, 335, ["C10", "C09"]),
    ("src/token/variance/natural.rs", 640, 805, ["C10", "C09"]),
    ("src/token/variance/ops.rs", 14, 62, ["C05"]),
    ("src/token/variance/mod.rs", 137, 270, ["C10", "C09"]),
    ("src/token/variance/mod.rs", 365, 390, ["C09"]),
    ("src/token/variance/invariant/mod.rs", 143, 183, ["C10", "C09"]),
    ("src/token/variance/invariant/term.rs", 270, 368, ["C10"]),
    ("src/walk/behavior.rs", 36, 140, ["C15"]),
    ("src/walk/behavior.rs", 197, 230, ["C15"]),
    ("src/filter.rs", 120, 165, ["C13"]),
    ("src/filter.rs", 230, 372, ["C16", "C13"]),
    ("src/filter.rs", 545, 664, ["C16", "C13"]),
    ("src/walk/mod.rs", 655, 795, ["C16", "C20"]),
    ("src/walk/glob.rs", 436, 456, ["C13"]),
    ("src/query.rs", 204, 310, ["C12"]),
    ("src/diagnostics/mod.rs", 30, 45, ["C17"]),
    ("src/lib.rs", 100, 120, ["C11"]),
    ("src/lib.rs", 955, 1005, ["C18"]),
    ("src/token/mod.rs", 866, 900, ["C12", "C19"]),
    ("src/token/mod.rs", 1040, 1070, ["C11"]),
    ("src/token/mod.rs", 1195, 1240, ["C11", "C19"]),
    ("src/token/mod.rs", 1290, 1320, ["C19", "C10"]),
    ("src/token/mod.rs", 1380, 1430, ["C17", "C10", "C09"]),
    ("src/token/mod.rs", 1535, 1560, ["C12"]),
    ("src/capture.rs", 12, 24, ["C19"]),
    ("src/token/parse.rs", 82, 92, ["C17"]),
    ("src/rule.rs", 516, 560, ["C06"]),
    ("src/rule.rs", 568, 810, ["C06"]),
    ("src/token/mod.rs", 508, 546, ["C12"]),
    ("src/token/mod.rs", 194, 200, ["C17"]),
    ("src/token/walk.rs", 436, 467, ["C12", "C06"]),
    ("src/lib.rs", 683, 693, ["C17"]),
    ("src/walk/mod.rs", 244, 252, ["C20"]),
    ("src/token/parse.rs", 372, 412, ["C06"]),
]

def sh(cmd, cwd=None, env=None, timeout=7200):
    e = dict(os.environ, CARGO_NET_OFFLINE="true"); e.update(env or {})
    p = subprocess.run(cmd, cwd=cwd, shell=True, capture_output=True, text=True, env=e, timeout=timeout, errors="replace")
    return p.returncode, p.stdout + p.stderr

def mutants():
    out = []
    for file, lo, hi, props in TARGETS:
        lines = (WT / file).read_text().split("\n")
        for i in range(lo - 1, min(hi, len(lines))):
            l = lines[i]
            if l.strip().startswith("//") or "expect(" in l and "checked_add" not in l:
                continue
            for k, (pat, rep) in enumerate(OPS):
                m = re.search(pat, l)
                if m:
                    new = l[:m.start()] + re.sub(pat, rep, l[m.start():], count=1)
                    if new != l:
                        out.append({"file": file, "line": i + 1, "op": k, "old": l.strip(), "new": new.strip(), "props": props, "newline": new})
    return out

def main():
    n = int(sys.argv[1]) if len(sys.argv) > 1 else 40
    seed = int(sys.argv[2]) if len(sys.argv) > 2 else 1
    OUT.mkdir(exist_ok=True)
    sh("git checkout -q -- .", cwd=WT)
    ms = mutants()
    flt = os.environ.get('MUT_FILTER')
    if flt:
        ms = [m for m in ms if re.search(flt, f"{m['file']}:{m['line']}") or re.search(flt, m['file'])]
    random.Random(seed).shuffle(ms)
    done = set()
    res = OUT / "RESULTS.jsonl"
    if res.exists():
        for l in res.read_text().split("\n"):
            if l.strip():
                j = json.loads(l); done.add((j["file"], j["line"], j["op"]))
    print(f"{len(ms)} candidate mutants; running up to {n}")
    count = 0
    for m in ms:
        if count >= n:
            break
        key = (m["file"], m["line"], m["op"])
        if key in done:
            continue
        sh("git checkout -q -- .", cwd=WT)
        p = WT / m["file"]
        lines = p.read_text().split("\n")
        lines[m["line"] - 1] = m["newline"]
        p.write_text("\n".join(lines))
        rec = {k: m[k] for k in ("file", "line", "op", "old", "new", "props")}
        rc, out = sh("cargo test --workspace --no-fail-fast --offline -q 2>&1 | tail -40", cwd=WT, env={"CARGO_TARGET_DIR": "/var/tmp/mut_target"})
        if "error[" in out or "error:" in out and "test failed" not in out and "could not compile" in out:
            rec["status"] = "does-not-compile"
        elif re.search(r"test result: FAILED|\d+ failed", out) and not re.search(r"test result: ok\. 468 passed", out):
            rec["status"] = "killed-by-tests"
        elif not re.search(r"test result: ok\. 468 passed", out):
            rec["status"] = "does-not-compile"
        else:
            count += 1
            rec["status"] = "survives-tests"
            rec["checks"] = {}
            for prop in m["props"]:
                t0 = time.time()
                rc, o = sh(f"python3 tools/check.py {prop}", cwd=VERIF, env={"VERIF_REPO": str(WT), "VERIF_OUT": "/var/tmp/mut_out"})
                viol = [re.search(r"replay=\S*/([^/\s]+)\.json", l).group(1) for l in o.split("\n") if l.startswith("VIOLATION") and re.search(r"replay=\S*/([^/\s]+)\.json", l)]
                rec["checks"][prop] = {"exit": rc, "violations": viol[:6], "undecided": [l[:160] for l in o.split("\n") if l.startswith("UNDECIDED")][:2], "wall_s": round(time.time() - t0)}
                if rc == 1:
                    break
            rec["caught"] = any(c["exit"] == 1 for c in rec["checks"].values())
        with open(res, "a") as f:
            f.write(json.dumps(rec) + "\n")
        print(rec["file"], rec["line"], rec["status"], rec.get("caught"), rec["old"][:50], "->", rec["new"][:50], flush=True)
    sh("git checkout -q -- .", cwd=WT)

main()
