#!/usr/bin/env python3
"""Extraction of facts from /repo's current source that contracts are stated against.

parser_constants: the four character lists of the literal and class parsers in src/token/parse.rs,
re-read on every run (anchors: `fn literal(`, `bytes::is_not("...")`, the
`combinator::value("x", bytes::tag("x"))` list, `fn class(`, `character::none_of("...")`, the
`combinator::value('x', bytes::tag("\\x"))` list). A lost anchor is UNDECIDED, never an alarm.
"""
import re
from vlib import Undecided


def _unescape_rust(s):
    out, i = [], 0
    while i < len(s):
        if s[i] == "\\":
            n = s[i + 1]
            out.append({"\\": "\\", "n": "\n", "t": "\t", "'": "'", '"': '"', "0": "\0", "r": "\r"}.get(n))
            if out[-1] is None:
                raise Undecided(f"unsupported escape \\{n} in parser constant")
            i += 2
        else:
            out.append(s[i])
            i += 1
    return out


def _fn_body(text, name):
    m = re.search(r"\n( *)fn " + re.escape(name) + r"\b", text)
    if not m:
        raise Undecided(f"anchor lost: fn {name} in src/token/parse.rs")
    start = text.index("{", m.end())
    depth, i = 0, start
    while i < len(text):
        if text[i] == "{":
            depth += 1
        elif text[i] == "}":
            depth -= 1
            if depth == 0:
                return text[start:i + 1]
        i += 1
    raise Undecided(f"anchor lost: unbalanced body of fn {name}")


def rust_char(c):
    return {"\\": "'\\\\'", "'": "'\\''", "\n": "'\\n'", "\t": "'\\t'", "\r": "'\\r'", "\0": "'\\0'"}.get(c, f"'{c}'")


def parser_sets(repo):
    text = (repo / "src" / "token" / "parse.rs").read_text()
    lit = _fn_body(text, "literal")
    m = re.findall(r'bytes::escaped_transform\(\s*bytes::is_not\("((?:[^"\\]|\\.)*)"\),\s*\'((?:[^\'\\]|\\.))\',', lit)
    if len(m) != 1:
        raise Undecided("anchor lost: escaped_transform(is_not(..), '\\\\', ..) in fn literal")
    stop = _unescape_rust(m[0][0])
    control = _unescape_rust(m[0][1])[0]
    esc = re.findall(r'combinator::value\("((?:[^"\\]|\\.)*)",\s*bytes::tag\("((?:[^"\\]|\\.)*)"\)\)', lit)
    one_of = re.findall(r"'(?:[^'\\]|\\.)',\s*(?://[^\n]*\n\s*)*character::one_of\(\"((?:[^\"\\]|\\.)*)\"\)", lit)
    esc_pairs = []
    if esc and not one_of:
        for v, t in esc:
            v, t = _unescape_rust(v), _unescape_rust(t)
            if len(v) != 1 or len(t) != 1:
                raise Undecided("escape alternative is not a single character")
            esc_pairs.append((t[0], v[0]))
    elif len(one_of) == 1 and not esc:
        # the other spelling of the same list: `character::one_of("...")`, each character for itself
        esc_pairs = [(c, c) for c in _unescape_rust(one_of[0])]
    else:
        raise Undecided("anchor lost: escape alternatives in fn literal")
    cls = _fn_body(text, "class")
    m = re.findall(r'character::none_of\("((?:[^"\\]|\\.)*)"\)', cls)
    if len(m) != 1:
        raise Undecided("anchor lost: none_of(..) in fn class")
    class_stop = _unescape_rust(m[0])
    cesc = re.findall(r"combinator::value\('((?:[^'\\]|\\.))',\s*bytes::tag\(\"((?:[^\"\\]|\\.)*)\"\)\)", cls)
    if not cesc:
        raise Undecided("anchor lost: class escape alternatives in fn class")
    class_esc = []
    for v, t in cesc:
        v, t = _unescape_rust(v), _unescape_rust(t)
        if len(t) != 2 or t[0] != "\\" or len(v) != 1:
            raise Undecided("class escape alternative is not backslash + one character")
        class_esc.append((t[1], v[0]))
    return {"stop": stop, "control": control, "esc": esc_pairs, "class_stop": class_stop, "class_esc": class_esc}


def parser_constants(repo):
    s = parser_sets(repo)

    def pat(chars):
        return " | ".join(rust_char(c) for c in chars) if chars else "'\\u{10FFFF}' if false"

    lines = ["// ---- extracted from src/token/parse.rs on this run (tools/vextract.py) ----"]
    lines.append(f"pub(crate) fn stop_contains(c: char) -> bool {{ matches!(c, {pat(s['stop'])}) }}")
    lines.append(f"pub(crate) const CONTROL: char = {rust_char(s['control'])};")
    lines.append(f"pub(crate) fn esc_tag_contains(c: char) -> bool {{ matches!(c, {pat([t for t, _ in s['esc']])}) }}")
    arms = " ".join(f"{rust_char(t)} => Some({rust_char(v)})," for t, v in s["esc"])
    lines.append(f"pub(crate) fn esc_value(c: char) -> Option<char> {{ match c {{ {arms} _ => None }} }}")
    lines.append(f"pub(crate) fn class_stop_contains(c: char) -> bool {{ matches!(c, {pat(s['class_stop'])}) }}")
    arms = " ".join(f"{rust_char(t)} => Some({rust_char(v)})," for t, v in s["class_esc"])
    lines.append(f"pub(crate) fn class_esc_value(c: char) -> Option<char> {{ match c {{ {arms} _ => None }} }}")
    lines.append("// ---- end of extracted constants ----")
    return "\n".join(lines)


EXTRACTORS = {"parser_constants": parser_constants}
