#!/usr/bin/env python3
"""Extraction of facts from /repo's current source that contracts are stated against.

parser_constants: the four character lists of the literal and class parsers in src/token/parse.rs,
re-read on every run (anchors: `fn literal(`, `bytes::is_not("...")`, the
`combinator::value("x", bytes::tag("x"))` list, `fn class(`, `character::none_of("...")`, the
`combinator::value('x', bytes::tag("\\x"))` list). A lost anchor is UNDECIDED, never an alarm.
"""
import re
from vlib import Undecided


def _unescape_rust(s):
    out, i = [], 0
    while i < len(s):
        if s[i] == "\\":
            n = s[i + 1]
            out.append({"\\": "\\", "n": "\n", "t": "\t", "'": "'", '"': '"', "0": "\0", "r": "\r"}.get(n))
            if out[-1] is None:
                raise Undecided(f"unsupported escape \\{n} in parser constant")
            i += 2
        else:
            out.append(s[i])
            i += 1
    return out


def _fn_body(text, name):
    m = re.search(r"\n( *)fn " + re.escape(name) + r"\b", text)
    if not m:
        raise Undecided(f"anchor lost: fn {name} in src/token/parse.rs")
    start = text.index("{", m.end())
    depth, i = 0, start
    while i < len(text):
        if text[i] == "{":
            depth += 1
        elif text[i] == "}":
            depth -= 1
            if depth == 0:
                return text[start:i + 1]
        i += 1
    raise Undecided(f"anchor lost: unbalanced body of fn {name}")


def rust_char(c):
    return {"\\": "'\\\\'", "'": "'\\''", "\n": "'\\n'", "\t": "'\\t'", "\r": "'\\r'", "\0": "'\\0'"}.get(c, f"'{c}'")


def parser_sets(repo):
    text = (repo / "src" / "token" / "parse.rs").read_text()
    lit = _fn_body(text, "literal")
    m = re.findall(r'bytes::escaped_transform\(\s*bytes::is_not\("((?:[^"\\]|\\.)*)"\),\s*\'((?:[^\'\\]|\\.))\',', lit)
    if len(m) != 1:
        raise Undecided("anchor lost: escaped_transform(is_not(..), '\\\\', ..) in fn literal")
    stop = _unescape_rust(m[0][0])
    control = _unescape_rust(m[0][1])[0]
    esc = re.findall(r'combinator::value\("((?:[^"\\]|\\.)*)",\s*bytes::tag\("((?:[^"\\]|\\.)*)"\)\)', lit)
    one_of = re.findall(r"'(?:[^'\\]|\\.)',\s*(?://[^\n]*\n\s*)*character::one_of\(\"((?:[^\"\\]|\\.)*)\"\)", lit)
    esc_pairs = []
    if esc and not one_of:
        for v, t in esc:
            v, t = _unescape_rust(v), _unescape_rust(t)
            if len(v) != 1 or len(t) != 1:
                raise Undecided("escape alternative is not a single character")
            esc_pairs.append((t[0], v[0]))
    elif len(one_of) == 1 and not esc:
        # the other spelling of the same list: `character::one_of("...")`, each character for itself
        esc_pairs = [(c, c) for c in _unescape_rust(one_of[0])]
    else:
        raise Undecided("anchor lost: escape alternatives in fn literal")
    cls = _fn_body(text, "class")
    m = re.findall(r'character::none_of\("((?:[^"\\]|\\.)*)"\)', cls)
    if len(m) != 1:
        raise Undecided("anchor lost: none_of(..) in fn class")
    class_stop = _unescape_rust(m[0])
    cesc = re.findall(r"combinator::value\('((?:[^'\\]|\\.))',\s*bytes::tag\(\"((?:[^\"\\]|\\.)*)\"\)\)", cls)
    if not cesc:
        raise Undecided("anchor lost: class escape alternatives in fn class")
    class_esc = []
    for v, t in cesc:
        v, t = _unescape_rust(v), _unescape_rust(t)
        if len(t) != 2 or t[0] != "\\" or len(v) != 1:
            raise Undecided("class escape alternative is not backslash + one character")
        class_esc.append((t[1], v[0]))
    return {"stop": stop, "control": control, "esc": esc_pairs, "class_stop": class_stop, "class_esc": class_esc}


def parser_constants(repo):
    s = parser_sets(repo)

    def pat(chars):
        return " | ".join(rust_char(c) for c in chars) if chars else "'\\u{10FFFF}' if false"

    lines = ["// ---- extracted from src/token/parse.rs on this run (tools/vextract.py) ----"]
    lines.append(f"pub(crate) fn stop_contains(c: char) -> bool {{ matches!(c, {pat(s['stop'])}) }}")
    lines.append(f"pub(crate) const CONTROL: char = {rust_char(s['control'])};")
    lines.append(f"pub(crate) fn esc_tag_contains(c: char) -> bool {{ matches!(c, {pat([t for t, _ in s['esc']])}) }}")
    arms = " ".join(f"{rust_char(t)} => Some({rust_char(v)})," for t, v in s["esc"])
    lines.append(f"pub(crate) fn esc_value(c: char) -> Option<char> {{ match c {{ {arms} _ => None }} }}")
    lines.append(f"pub(crate) fn class_stop_contains(c: char) -> bool {{ matches!(c, {pat(s['class_stop'])}) }}")
    arms = " ".join(f"{rust_char(t)} => Some({rust_char(v)})," for t, v in s["class_esc"])
    lines.append(f"pub(crate) fn class_esc_value(c: char) -> Option<char> {{ match c {{ {arms} _ => None }} }}")
    lines.append("// ---- end of extracted constants ----")
    return "\n".join(lines)


def parser_zom_lookahead(repo):
    """The zero-or-more arms of `fn wildcard` in src/token/parse.rs: each arm is
    `error::context("zero-or-more", ... bytes::tag("<T>") ... bytes::is_not("<S>") ...)`: T is the spelling of
    a zero-or-more wildcard, S the characters that may NOT follow it (the parser's own adjacency rule)."""
    text = (repo / "src" / "token" / "parse.rs").read_text()
    body = _fn_body(text, "wildcard")
    arms = re.findall(r'"zero-or-more",.*?bytes::tag\("((?:[^"\\]|\\.)*)"\).*?bytes::is_not\("((?:[^"\\]|\\.)*)"\)', body, re.S)
    if not arms or len(arms) != body.count('"zero-or-more"'):
        raise Undecided("anchor lost: zero-or-more arms of fn wildcard (tag + is_not look-ahead)")
    tags, lines = [], ["// ---- extracted from fn wildcard of src/token/parse.rs on this run (tools/vextract.py) ----"]
    for i, (tag, stop) in enumerate(arms):
        tag, stop = _unescape_rust(tag), _unescape_rust(stop)
        if len(tag) != 1:
            raise Undecided("a zero-or-more spelling is not a single character")
        tags.append(tag[0])
        pat = " | ".join(rust_char(c) for c in stop) if stop else "'\\u{10FFFF}' if false"
        lines.append(f"pub(crate) fn zom_arm{i}_excludes(c: char) -> bool {{ matches!(c, {pat}) }}")
    lines.append(f"pub(crate) fn zom_tag_contains(c: char) -> bool {{ matches!(c, {' | '.join(rust_char(c) for c in tags)}) }}")
    lines.append("pub(crate) fn zom_every_arm_excludes(c: char) -> bool { " + " && ".join(f"zom_arm{i}_excludes(c)" for i in range(len(arms))) + " }")
    lines.append(f"pub(crate) const ZOM_ARMS: usize = {len(arms)};")
    lines.append("// ---- end of extracted constants ----")
    return "\n".join(lines)


EXTRACTORS = {"parser_constants": parser_constants, "parser_zom_lookahead": parser_zom_lookahead}


# ------------------------------------------------------------------------------------------------
# hoisting of items nested in a function body (`//@hoist <file> | <outer fn name> | <item prefix>`)
#
# Kani (like any Rust code outside that function) cannot name an item declared inside a function
# body (`fn partition() { fn pop_expression_bytes(..) {..} .. }`, `fn has_root() { struct IsRooting;
# impl Fold for IsRooting {..} .. }`). The item's text is copied BYTE-IDENTICALLY from /repo's current
# source into the generated harness module on every run. What the copy drops: the enclosing function
# (its body, its `use` declarations unless hoisted too, its generic parameters -- a nested item cannot
# use them anyway). A lost anchor is UNDECIDED, never an alarm.
# ------------------------------------------------------------------------------------------------
def _skip_noncode(text, i):
    """If text[i:] starts a comment / string / char literal, return the index just after it, else i."""
    if text.startswith("//", i):
        j = text.find("\n", i)
        return len(text) if j < 0 else j
    if text.startswith("/*", i):
        depth, j = 1, i + 2
        while j < len(text) and depth:
            if text.startswith("/*", j):
                depth, j = depth + 1, j + 2
            elif text.startswith("*/", j):
                depth, j = depth - 1, j + 2
            else:
                j += 1
        return j
    if text[i] == '"':
        j = i + 1
        while j < len(text) and text[j] != '"':
            j += 2 if text[j] == "\\" else 1
        return j + 1
    if text[i] == "r" and re.match(r'r#*"', text[i:]):
        m = re.match(r'r(#*)"', text[i:])
        end = text.find('"' + m.group(1), i + len(m.group(0)))
        return len(text) if end < 0 else end + 1 + len(m.group(1))
    if text[i] == "'":
        m = re.match(r"'(\\.[^']*|[^'\\])'", text[i:])  # a char literal; otherwise a lifetime
        if m:
            return i + len(m.group(0))
    return i


def _balanced_end(text, start):
    """start = index of an opening brace; returns the index just after its matching closing brace."""
    depth, i = 0, start
    while i < len(text):
        j = _skip_noncode(text, i)
        if j != i:
            i = j
            continue
        if text[i] == "{":
            depth += 1
        elif text[i] == "}":
            depth -= 1
            if depth == 0:
                return i + 1
        i += 1
    raise Undecided("anchor lost: unbalanced braces")


def _item_span(text, lo, hi, prefix, what):
    """the item inside text[lo:hi] whose first line (stripped) starts with `prefix`: (start, end)"""
    hits = []
    pos = lo
    for line in text[lo:hi].split("\n"):
        if line.strip().startswith(prefix):
            hits.append(pos)
        pos += len(line) + 1
    if len(hits) != 1:
        raise Undecided(f"anchor lost: {what}: item starting with {prefix!r} occurs {len(hits)} times")
    start = hits[0]
    # the item ends at the first `;` or balanced `{..}` (whichever opens first), outside comments / literals
    i = start
    while i < hi:
        j = _skip_noncode(text, i)
        if j != i:
            i = j
            continue
        if text[i] == ";":
            return start, i + 1
        if text[i] == "{":
            # `use a::{b, c};` -- a brace group inside a use declaration
            end = _balanced_end(text, i)
            if text[start:i].strip().startswith("use "):
                i = end
                continue
            return start, end
        i += 1
    raise Undecided(f"anchor lost: {what}: item {prefix!r} does not end inside the enclosing function")


def hoist(repo, rel, outer, prefix):
    p = repo / rel
    if not p.exists():
        raise Undecided(f"anchor lost: file {rel}")
    text = p.read_text()
    heads = [m for m in re.finditer(r"^[ \t]*(?:pub(?:\([^)]*\))?\s+)?fn " + re.escape(outer) + r"\b", text, re.M)]
    if len(heads) != 1:
        raise Undecided(f"anchor lost: fn {outer} occurs {len(heads)} times in {rel}")
    i = heads[0].end()
    while i < len(text):
        j = _skip_noncode(text, i)
        if j != i:
            i = j
            continue
        if text[i] == "{":
            break
        if text[i] == ";":
            raise Undecided(f"anchor lost: fn {outer} in {rel} has no body")
        i += 1
    end = _balanced_end(text, i)
    s, e = _item_span(text, i + 1, end - 1, prefix, f"{rel}::{outer}")
    line = text.count("\n", 0, s) + 1
    return (f"// ---- hoisted verbatim from {rel}:{line} (inside fn {outer}) by tools/vextract.py ----\n"
            + text[s:e] + "\n// ---- end of hoisted item ----")


def _fn_body_span(text, rel, outer):
    heads = [m for m in re.finditer(r"^[ \t]*(?:pub(?:\([^)]*\))?\s+)?fn " + re.escape(outer) + r"\b", text, re.M)]
    if len(heads) != 1:
        raise Undecided(f"anchor lost: fn {outer} occurs {len(heads)} times in {rel}")
    i = heads[0].end()
    while i < len(text):
        j = _skip_noncode(text, i)
        if j != i:
            i = j
            continue
        if text[i] == "{":
            break
        if text[i] == ";":
            raise Undecided(f"anchor lost: fn {outer} in {rel} has no body")
        i += 1
    return i + 1, _balanced_end(text, i) - 1


def hoist_expr(repo, rel, outer, prefix, strip):
    """`//@hoist-expr <file> | <outer fn> | <line prefix> | <leading text to drop>`: the block-like
    EXPRESSION (`match .. {..}`, `if .. {..} else {..}`) that follows `strip` on the unique line of the
    body of fn `outer` that starts with `prefix`, verbatim, up to the end of its balanced braces
    (`else` continuations included). Dropped: everything else of the enclosing function; the free
    variables of the expression become the parameters of the wrapper the directive is placed in (a
    free variable the wrapper does not bind => the harness does not compile => UNDECIDED)."""
    p = repo / rel
    if not p.exists():
        raise Undecided(f"anchor lost: file {rel}")
    text = p.read_text()
    lo, hi = _fn_body_span(text, rel, outer)
    hits, pos = [], lo
    for line in text[lo:hi].split("\n"):
        if line.strip().startswith(prefix):
            hits.append(pos + (len(line) - len(line.lstrip())))
        pos += len(line) + 1
    if len(hits) != 1:
        raise Undecided(f"anchor lost: {rel}::{outer}: a line starting with {prefix!r} occurs {len(hits)} times")
    start = hits[0]
    if not text.startswith(strip, start):
        raise Undecided(f"anchor lost: {rel}::{outer}: {prefix!r} does not start with {strip!r}")
    start += len(strip)
    i = start
    end = None
    while i < hi:
        j = _skip_noncode(text, i)
        if j != i:
            i = j
            continue
        if text[i] in ";,":
            break
        if text[i] == "{":
            end = _balanced_end(text, i)
            m = re.match(r"\s*else\b", text[end:hi])
            if m:
                i = end + len(m.group(0))
                continue
            break
        i += 1
    if end is None:
        raise Undecided(f"anchor lost: {rel}::{outer}: the expression after {prefix!r} is not block-like")
    line = text.count("\n", 0, start) + 1
    return (f"// ---- hoisted verbatim from {rel}:{line} (expression inside fn {outer}) ----\n"
            + text[start:end].strip() + "\n// ---- end of hoisted expression ----")


ITEM_START = re.compile(r"(?:pub(?:\([^)]*\))?\s+)?(?:use|fn|struct|enum|impl|const|static|type|trait|mod|unsafe\s+impl|unsafe\s+fn)\b")


def hoist_all(repo, rel, outer):
    """every item declared at the top level of the body of fn `outer` (use / fn / struct / enum / impl /
    const / type / trait, with the attribute lines directly above it), in source order, verbatim"""
    p = repo / rel
    if not p.exists():
        raise Undecided(f"anchor lost: file {rel}")
    text = p.read_text()
    heads = [m for m in re.finditer(r"^[ \t]*(?:pub(?:\([^)]*\))?\s+)?fn " + re.escape(outer) + r"\b", text, re.M)]
    if len(heads) != 1:
        raise Undecided(f"anchor lost: fn {outer} occurs {len(heads)} times in {rel}")
    i = heads[0].end()
    while i < len(text) and text[i] != "{":
        j = _skip_noncode(text, i)
        if j != i:
            i = j
            continue
        if text[i] == ";":
            raise Undecided(f"anchor lost: fn {outer} in {rel} has no body")
        i += 1
    end = _balanced_end(text, i)
    lo, hi = i + 1, end - 1
    out = []
    pos = lo
    at_line_start = True
    pending_attr = None  # start of attribute lines directly above
    while pos < hi:
        if at_line_start:
            m = re.match(r"[ \t]*", text[pos:hi])
            q = pos + len(m.group(0))
            if text.startswith("#[", q):
                if pending_attr is None:
                    pending_attr = pos
                # skip the attribute (balanced brackets)
                depth, k = 0, q + 1
                while k < hi:
                    if text[k] == "[":
                        depth += 1
                    elif text[k] == "]":
                        depth -= 1
                        if depth == 0:
                            break
                    k += 1
                pos = k + 1
                at_line_start = False
                continue
            if ITEM_START.match(text, q):
                # find the end of the item
                k = q
                item_end = None
                is_use = text.startswith("use ", q)
                while k < hi:
                    j = _skip_noncode(text, k)
                    if j != k:
                        k = j
                        continue
                    if text[k] == ";":
                        item_end = k + 1
                        break
                    if text[k] == "{":
                        e = _balanced_end(text, k)
                        if is_use:
                            k = e
                            continue
                        item_end = e
                        break
                    k += 1
                if item_end is None:
                    raise Undecided(f"anchor lost: an item of fn {outer} in {rel} does not end inside it")
                start = pending_attr if pending_attr is not None else pos
                line = text.count("\n", 0, start) + 1
                out.append(f"// ---- hoisted verbatim from {rel}:{line} (inside fn {outer}) ----\n" + text[start:item_end].rstrip())
                pending_attr = None
                pos = item_end
                at_line_start = False
                continue
            if q < hi and text[q] not in "\n" and not text.startswith("//", q):
                pending_attr = None
        j = _skip_noncode(text, pos)
        if j != pos:
            at_line_start = text[pos:j].endswith("\n")
            pos = j
            continue
        c = text[pos]
        if c == "{":
            pos = _balanced_end(text, pos)  # a statement block / closure body: not scanned for items
            at_line_start = False
            continue
        at_line_start = (c == "\n")
        pos += 1
    if not out:
        # the items may have been moved to module level (then `use super::*` of the harness module
        # still finds them); if they are gone altogether the harness does not compile -> UNDECIDED
        return f"// ---- fn {outer} of {rel} declares no nested items on this tree ----"
    return "\n".join(out) + f"\n// ---- end of items hoisted from fn {outer} ----"


def expand_hoists(src, repo):
    def rep(m):
        parts = [x.strip() for x in m.group(1).split("|")]
        if len(parts) != 3:
            raise Undecided(f"bad //@hoist directive: {m.group(0)!r}")
        return hoist(repo, parts[0], parts[1], parts[2])
    def rep_all(m):
        parts = [x.strip() for x in m.group(1).split("|")]
        if len(parts) != 2:
            raise Undecided(f"bad //@hoist-all directive: {m.group(0)!r}")
        return hoist_all(repo, parts[0], parts[1])
    def rep_expr(m):
        parts = [x.strip() for x in m.group(1).split("|")]
        if len(parts) != 4:
            raise Undecided(f"bad //@hoist-expr directive: {m.group(0)!r}")
        return hoist_expr(repo, *parts)
    src = re.sub(r"^//@hoist-expr (.*)$", rep_expr, src, flags=re.M)
    src = re.sub(r"^//@hoist-all (.*)$", rep_all, src, flags=re.M)
    return re.sub(r"^//@hoist (.*)$", rep, src, flags=re.M)
