// Public-API witnesses of the findings recorded in /verif/known_findings.json.
// Run with `python3 tools/witness.py` (copies this file to tests/ of a scratch worktree of /repo).
// OPEN findings: the test asserts that the defect is PRESENT (it documents the failing input);
// FIXED findings: the test asserts that the defect is ABSENT on the repaired tree.
use std::panic;
use wax::query::{DepthVariance, TextVariance};
use wax::walk::{DepthMax, Entry, FileIterator, PathExt};
use wax::{Glob, Program};

fn lower_bound(glob: &str) -> Option<usize> {
    match Glob::new(glob).unwrap().depth() {
        DepthVariance::Invariant(n) => Some(n),
        DepthVariance::Variant(range) => range.lower().bounded().map(|n| n.get()),
    }
}

// ---- open ------------------------------------------------------------------------------------

#[test]
fn open_c05_overflow_expect() {
    // bounds whose exact product exceeds usize::MAX hit expect("overflow determining ...")
    let result = panic::catch_unwind(|| Glob::new("<a/:1,18446744073709551615>").map(|_| ()));
    assert!(result.is_err(), "C05.overflow-expect: expected the build to panic");
}

#[test]
fn open_c10_bracket_before_tree() {
    // a text-first bracket that ends in a tree wildcard is finalised on its own
    for (expression, path) in [("/{a/**}", "/a"), ("**/a{b/**}", "ab"), ("{**/a}{b/**}", "ab"), ("/x/{y/**}", "/x/y")] {
        let glob = Glob::new(expression).unwrap();
        assert!(glob.is_match(path));
        let components = std::path::Path::new(path).components().filter(|c| matches!(c, std::path::Component::Normal(_))).count();
        let reported = lower_bound(expression).unwrap();
        assert!(reported > components, "C10.bracket-before-tree: {expression} reports >= {reported}, {path} has {components}");
    }
    // the flat spellings are right
    assert_eq!(lower_bound("/a/**"), Some(1));
    assert_eq!(lower_bound("**/ab/**"), Some(1));
}

#[test]
fn open_c10_optional_edge_text() {
    // an optional leading text run: without it the following boundary becomes the root
    for (expression, path, components) in [("<a:0,1>/b", "/b", 1usize), ("<a:0,2>/**/c", "/c", 1)] {
        let glob = Glob::new(expression).unwrap();
        assert!(glob.is_match(path));
        let reported = lower_bound(expression).unwrap();
        assert!(reported > components, "C10.optional-edge-text: {expression} reports >= {reported}, {path} has {components}");
    }
    // in the middle of an expression the optional run is harmless
    assert!(Glob::new("x<a:0,1>/b").unwrap().is_match("x/b"));
    assert_eq!(lower_bound("x<a:0,1>/b"), Some(2));
}

#[test]
fn open_c15_max_below_pivot() {
    let root = std::env::temp_dir().join(format!("wax-witness-{}", std::process::id()));
    let _ = std::fs::remove_dir_all(&root);
    std::fs::create_dir_all(root.join("a/b/c")).unwrap();
    let yielded: Vec<_> = Glob::new("a/b/**")
        .unwrap()
        .walk_with_behavior(&root, DepthMax(1))
        .map(|entry| entry.unwrap().path().strip_prefix(&root).unwrap().to_owned())
        .collect();
    std::fs::remove_dir_all(&root).unwrap();
    // a/b has depth 2 > 1 and should not be yielded
    assert!(yielded.iter().any(|p| p == std::path::Path::new("a/b")), "C15.max-below-pivot: expected a/b to be yielded, got {yielded:?}");
}

// ---- fixed -----------------------------------------------------------------------------------

#[test]
fn fixed_f1_conjunction_upper_lower() {
    let glob = Glob::new("<a:0,2><b:1,>").expect("F1: builds");
    assert!(glob.is_match("ab"));
    assert_eq!(lower_bound("<a/:0,2><b/:1,>c"), Some(2));
}

#[test]
fn fixed_f2_parse_error_span() {
    let expression = "愛\\";
    let error = Glob::new(expression).unwrap_err();
    for location in error.locations() {
        let (start, n) = location.span();
        assert!(expression.is_char_boundary(start) && start + n <= expression.len() && expression.is_char_boundary(start + n), "F2: span ({start}, {n})");
        let _ = &expression[start..][..n];
    }
}

#[test]
fn fixed_f3_stacked_tree_discards() {
    let root = std::env::temp_dir().join(format!("wax-witness3-{}", std::process::id()));
    let _ = std::fs::remove_dir_all(&root);
    for file in ["p/a/x/f1", "p/b/y/f2", "p/c/f3", "p/f5", "q/z/f4"] {
        let path = root.join(file);
        std::fs::create_dir_all(path.parent().unwrap()).unwrap();
        std::fs::write(path, "").unwrap();
    }
    let collect = |stacked: bool| {
        let walk = root.walk().not("**/a/**").unwrap();
        let mut paths: Vec<_> = if stacked {
            walk.not("**/a/**").unwrap().map(|e| e.unwrap().into_path()).collect()
        }
        else {
            walk.map(|e| e.unwrap().into_path()).collect()
        };
        paths.sort();
        paths
    };
    let (one, two) = (collect(false), collect(true));
    std::fs::remove_dir_all(&root).unwrap();
    assert_eq!(one, two, "F3: a second identical negation must not lose entries");
}

#[test]
fn fixed_f4_title_case_casing() {
    let glob = Glob::new("(?i)ǅ").unwrap();
    assert!(glob.is_match("ǆ"));
    assert!(matches!(glob.text(), TextVariance::Variant(_)), "F4: a pattern that matches two paths reports variant text");
}

#[test]
fn fixed_f5_nested_rooted_branch() {
    // an alternation branch / optional repetition that begins with a rooted NESTED branch
    for expression in ["{</a:1,>,b}", "<</a:1,>:0,1>", "{a,</**/b:1,>}"] {
        assert!(Glob::new(expression).is_err(), "F5: {expression} would be sometimes rooted and must not build");
    }
    // a nested branch that cannot root, or one that is not first in the expression, is fine
    for expression in ["{<a:1,>,b}", "x{</a:1,>,b}", "<</a:1,>:1,2>"] {
        let glob = Glob::new(expression).unwrap();
        assert!(!glob.has_root().is_sometimes(), "F5: a glob is always or never rooted");
    }
}

// ---- genuine defects of the pinned tree that lie OUTSIDE every obligation (DESIGN 11.2 / 11.10): not
// ---- known findings of a check; recorded so that a reader can reproduce them (asserted PRESENT)

#[test]
fn outside_c06_outer_leaks_between_sibling_branches() {
    // `{c,*}` is preceded by `/` and followed by nothing, yet it inherits the right neighbour `*` of the
    // unrelated first alternation (one `outer` variable for the whole breadth-first traversal)
    assert!(Glob::new("{a,b}*/{c,*}").is_err());
    assert!(Glob::new("<a:1,>*/{c,*}").is_err());
    // the same second alternation without an earlier branch builds
    assert!(Glob::new("a*/{c,*}").is_ok());
    assert!(Glob::new("x/{c,*}").is_ok());
}

#[test]
fn outside_c08_partition_with_a_flag_before_a_boundary() {
    // a flag group is not a token: the sum of the popped token spans is short by its length
    let (_, postfix) = Glob::new("a(?i)/**/b").unwrap().partition();
    assert_eq!(postfix.map(|glob| glob.to_string()), Some(String::from("?i)/**/b")));
}
